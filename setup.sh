#!/usr/bin/env bash
# Offline setup: builds /verif/.vendor (a cargo "directory source" made of every
# .crate already in ~/.cargo/registry/cache) so that Kani's pinned toolchain can
# resolve /repo's Cargo.lock without network.  Idempotent.
set -euo pipefail
cd "$(dirname "$0")"
VENDOR=/verif/.vendor
STAMP=$VENDOR/.stamp
want=$(ls ~/.cargo/registry/cache/*/*.crate | sort | sha256sum | cut -d' ' -f1)
if [ -f "$STAMP" ] && [ "$(cat $STAMP)" = "$want" ]; then
  echo "setup: vendor dir up to date"
else
  rm -rf "$VENDOR"; mkdir -p "$VENDOR"
  python3 - <<'PY'
import glob, hashlib, json, os, tarfile, sys
from concurrent.futures import ThreadPoolExecutor
V='/verif/.vendor'
def one(c):
    name=os.path.basename(c)[:-len('.crate')]
    dst=os.path.join(V,name)
    if os.path.isdir(dst): return
    h=hashlib.sha256(open(c,'rb').read()).hexdigest()
    with tarfile.open(c,'r:gz') as t:
        t.extractall(V)
    with open(os.path.join(dst,'.cargo-checksum.json'),'w') as f:
        json.dump({"files":{},"package":h},f)
cs=sorted(glob.glob(os.path.expanduser('~/.cargo/registry/cache/*/*.crate')))
with ThreadPoolExecutor(8) as ex: list(ex.map(one,cs))
print('setup: vendored',len(cs),'crate files')
PY
  echo "$want" > "$STAMP"
fi
mkdir -p /verif/.cache /verif/evidence
python3 /verif/bin/check --selftest
echo "setup: ok"
