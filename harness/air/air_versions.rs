//@ module: air_versions
//@ crate: aquavm-air
//@ attach: air/src/preparation_step/preparation.rs
//@ functions: check_version_compatibility; min_supported_version (once_cell Lazy + semver::Version::from_str); <semver::Version as PartialOrd>::lt; semver::Prerelease::cmp; semver::BuildMetadata::cmp
//@ stubs: <semver::Prerelease as Ord>::cmp -> the documented rule 'release > pre-release' for the empty/non-empty cases, asserting that two non-empty pre-releases are never compared (third-party code; its identifier-wise comparison goes through split/memchr and does not finish); <semver::BuildMetadata as Ord>::cmp -> Equal, asserting that both sides are empty (exact for the inputs used); std::thread::current / park -> assume(false), Thread::unpark -> no-op (single-threaded Lazy initialisation never waits); alloc::fmt::format -> empty String
//@ assumes: build metadata empty; pre-release is empty (c21_release_versions) or the literal "alpha" (c21_prerelease_versions)
//@ decides: C21: a release version is rejected iff (major,minor,patch) < (0,61,0) lexicographically, for all u64 triples; a pre-release of x.y.z is rejected iff (x,y,z) <= (0,61,0); the minimum is read from the real min_supported_version()
//@ outside: decoding of the envelope (msgpack), routing of the error to "previous data returned" (runner.rs), other pre-release strings
//@ harness: name=c21_release_versions props=C21 cap=1800 cost=120 sym="major, minor, patch: any u64" bound="pre-release and build metadata empty; unwind 12"
//@ harness: name=c21_prerelease_versions props=C21 cap=1800 cost=200 sym="major, minor, patch: any u64" bound="pre-release = alpha; unwind 12"
//@ harness: name=c21_min_version_is_0_61_0 trivial=1 props=C21 cap=900 cost=40 sym="none (concrete): the constant behind the check" bound="-"

use super::*;
include!("_air_stubs.rs");

/// semver::BuildMetadata::cmp splits and compares identifier strings even when both are empty; in these
/// harnesses build metadata is always empty, which the stub itself asserts (so it is exact here).
fn build_cmp_stub(a: &semver::BuildMetadata, b: &semver::BuildMetadata) -> std::cmp::Ordering {
    kani::assert(a.is_empty() && b.is_empty(), "stub exactness: build metadata is empty on both sides");
    std::cmp::Ordering::Equal
}

/// semver::Prerelease::cmp: "a real release compares greater than a pre-release"; two non-empty pre-releases
/// are compared identifier by identifier (split + memchr: what CBMC cannot get through).  Only the first rule
/// is needed here (the minimum 0.61.0 has no pre-release); the stub asserts that the other case is not used.
fn pre_cmp_stub(a: &semver::Prerelease, b: &semver::Prerelease) -> std::cmp::Ordering {
    use std::cmp::Ordering::*;
    match (a.is_empty(), b.is_empty()) {
        (true, true) => Equal,
        (true, false) => Greater,
        (false, true) => Less,
        (false, false) => {
            kani::assert(false, "stub exactness: two non-empty pre-releases are never compared in these harnesses");
            Equal
        }
    }
}

fn lex_lt(a: (u64, u64, u64), b: (u64, u64, u64)) -> bool {
    a.0 < b.0 || (a.0 == b.0 && (a.1 < b.1 || (a.1 == b.1 && a.2 < b.2)))
}

#[kani::proof]
#[kani::unwind(12)]
#[kani::stub(std::thread::current::current, thread_current_stub)]
#[kani::stub(std::thread::park, thread_park_stub)]
#[kani::stub(std::thread::Thread::unpark, thread_unpark_stub)]
#[kani::stub(alloc::fmt::format, fmt_stub)]
#[kani::stub(<semver::BuildMetadata as std::cmp::Ord>::cmp, build_cmp_stub)]
#[kani::stub(<semver::Prerelease as std::cmp::Ord>::cmp, pre_cmp_stub)]
fn c21_release_versions() {
    let (ma, mi, pa): (u64, u64, u64) = (kani::any(), kani::any(), kani::any());
    let v = Versions {
        data_version: semver::Version::new(0, 0, 0),
        interpreter_version: semver::Version::new(ma, mi, pa),
    };
    let r = check_version_compatibility(&v);
    kani::assert(r.is_err() == lex_lt((ma, mi, pa), (0, 61, 0)), "C21: rejected iff older than 0.61.0");
    kani::cover!(r.is_err(), "old version rejected");
    kani::cover!(r.is_ok() && ma == 0 && mi == 61 && pa == 0, "minimum itself accepted");
    std::mem::forget(r);
    std::mem::forget(v);
}

#[kani::proof]
#[kani::unwind(12)]
#[kani::stub(std::thread::current::current, thread_current_stub)]
#[kani::stub(std::thread::park, thread_park_stub)]
#[kani::stub(std::thread::Thread::unpark, thread_unpark_stub)]
#[kani::stub(alloc::fmt::format, fmt_stub)]
#[kani::stub(<semver::BuildMetadata as std::cmp::Ord>::cmp, build_cmp_stub)]
#[kani::stub(<semver::Prerelease as std::cmp::Ord>::cmp, pre_cmp_stub)]
fn c21_prerelease_versions() {
    let (ma, mi, pa): (u64, u64, u64) = (kani::any(), kani::any(), kani::any());
    let mut iv = semver::Version::new(ma, mi, pa);
    iv.pre = semver::Prerelease::new("alpha").unwrap();
    let v = Versions {
        data_version: semver::Version::new(0, 0, 0),
        interpreter_version: iv,
    };
    let r = check_version_compatibility(&v);
    let le = lex_lt((ma, mi, pa), (0, 61, 0)) || (ma, mi, pa) == (0, 61, 0);
    kani::assert(r.is_err() == le, "C21: a pre-release of x.y.z precedes x.y.z");
    kani::cover!(r.is_err() && ma == 0 && mi == 61 && pa == 0, "0.61.0-alpha rejected");
    kani::cover!(r.is_ok(), "newer pre-release accepted");
    std::mem::forget(r);
    std::mem::forget(v);
}

#[kani::proof]
#[kani::unwind(12)]
#[kani::stub(std::thread::current::current, thread_current_stub)]
#[kani::stub(std::thread::park, thread_park_stub)]
#[kani::stub(std::thread::Thread::unpark, thread_unpark_stub)]
fn c21_min_version_is_0_61_0() {
    let m = super::super::min_supported_version();
    kani::assert(m.major == 0 && m.minor == 61 && m.patch == 0, "C21: minimal supported version is 0.61.0");
    kani::assert(m.pre.is_empty() && m.build.is_empty(), "C21: no pre-release/build on the minimum");
    kani::cover!(true, "end reached");
}
