//@ module: air_verifier
//@ crate: aquavm-air
//@ attach: air/src/execution_step/instructions/call/verifier.rs
//@ functions: verify_call; <SecurityTetraplet as PartialEq>::eq
//@ stubs: alloc::fmt::format -> empty String (the mismatch error formats both tetraplets with {:?}; messages are not compared)
//@ assumes: every component (argument hash, peer, service, function, lens) is chosen symbolically from a 2-string palette of 1-byte strings
//@ decides: C14: verify_call accepts iff the argument hash and all four tetraplet components are equal; C04: equal parameters are always accepted
//@ outside: computation of the argument hash (hashing), lookup of the stored aggregate in the CID store
//@ harness: name=c14_verify_call_iff_all_equal props=C14,C04 cap=600 cost=20 sym="10 symbolic component choices (5 expected, 5 stored)" bound="2-string palette per component, 1-byte strings, unwind 4"
//@ harness: name=c14_verify_call_vacuity props=C14 expect=fail cap=600 cost=20 sym="same" bound="same"

use super::*;

fn fmt_stub(_: std::fmt::Arguments<'_>) -> String {
    String::new()
}

fn pick(b: bool, x: &'static str, y: &'static str) -> String {
    if b {
        x.to_string()
    } else {
        y.to_string()
    }
}

fn tetraplet(c: [bool; 4]) -> SecurityTetraplet {
    SecurityTetraplet {
        peer_pk: pick(c[0], "p", "q"),
        service_id: pick(c[1], "s", "t"),
        function_name: pick(c[2], "f", "g"),
        lens: pick(c[3], "", "l"),
    }
}

fn body(twin: bool) {
    let e: [bool; 4] = [kani::any(), kani::any(), kani::any(), kani::any()];
    let s: [bool; 4] = [kani::any(), kani::any(), kani::any(), kani::any()];
    let (eh, sh): (bool, bool) = (kani::any(), kani::any());
    let expected = tetraplet(e);
    let stored = tetraplet(s);
    let expected_hash = pick(eh, "h", "k");
    let stored_hash = pick(sh, "h", "k");
    let r = verify_call(&expected_hash, &expected, &stored_hash, &stored);
    let all_equal = eh == sh && e[0] == s[0] && e[1] == s[1] && e[2] == s[2] && e[3] == s[3];
    kani::assert(r.is_ok() == all_equal, "C14: accepted iff argument hash and every tetraplet component match");
    kani::cover!(r.is_ok(), "accepted");
    kani::cover!(r.is_err() && eh == sh && e[0] == s[0] && e[1] == s[1] && e[2] == s[2], "rejected for the lens alone");
    if twin && r.is_ok() {
        kani::assert(false, "vacuity twin");
    }
    std::mem::forget(r);
    std::mem::forget((expected, stored, expected_hash, stored_hash));
}

#[kani::proof]
#[kani::unwind(4)]
#[kani::stub(alloc::fmt::format, fmt_stub)]
fn c14_verify_call_iff_all_equal() {
    body(false);
}

#[kani::proof]
#[kani::unwind(4)]
#[kani::stub(alloc::fmt::format, fmt_stub)]
fn c14_verify_call_vacuity() {
    body(true);
}
