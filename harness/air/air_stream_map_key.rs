//@ module: air_stream_map_key
//@ crate: aquavm-air
//@ attach: air/src/execution_step/execution_context/stream_maps_variables/stream_map_key.rs
//@ functions: StreamMapKey::from_value; StreamMapKey::from_value_ref; From<u32>/From<i64>/From<u64>/From<&str> for StreamMapKey; From<StreamMapKey> for JValue; <StreamMapKey as PartialEq>::eq
//@ assumes: keys are JSON numbers built from any i64 / u64 / f64, the strings "a"/"b", bool and null
//@ decides: C24: a canon-map key taken from a scalar (from_value_ref) is the SAME key the map stored when the pair was inserted (from_value) and the same key a literal index in the lens produces (From<u32>), for every number; non-key JSON types give no key in both functions; a key converts back to the JSON value it came from
//@ outside: hashing of keys inside the map, grouping of values per key, the lens parser
//@ harness: name=c24_map_key_from_scalar_equals_stored_key playback=1 props=C24 cap=600 cost=20 sym="n: any i64; u: any u64; x: any f64; idx: any u32" bound="none (loop-free)"
//@ harness: name=c24_map_key_strings_and_non_keys playback=1 props=C24 cap=600 cost=30 sym="string chosen from {a,b}; bool any" bound="1-byte strings"

use super::*;

#[kani::proof]
#[kani::unwind(2)]
fn c24_map_key_from_scalar_equals_stored_key() {
    let n: i64 = kani::any();
    let u: u64 = kani::any();
    let x: f64 = kani::any();
    let idx: u32 = kani::any();
    // what the map stored at insertion vs what a scalar accessor produces later
    kani::assert(StreamMapKey::from_value(JValue::from(n)) == StreamMapKey::from_value_ref(&JValue::from(n)), "C24: i64 key from a scalar equals the stored key");
    kani::assert(StreamMapKey::from_value(JValue::from(u)) == StreamMapKey::from_value_ref(&JValue::from(u)), "C24: u64 key from a scalar equals the stored key");
    // a literal index in the lens and the same number held by a scalar select the same key
    kani::assert(StreamMapKey::from_value_ref(&JValue::from(idx)) == Some(StreamMapKey::from(idx)), "C24: a scalar holding idx selects what the literal index idx selects");
    kani::assert(StreamMapKey::from_value(JValue::from(idx)) == Some(StreamMapKey::from(idx)), "C24: a pair inserted under idx is found by the literal index idx");
    // numbers are keys, floats are not
    kani::assert(StreamMapKey::from_value_ref(&JValue::from(n)).is_some() && StreamMapKey::from_value_ref(&JValue::from(u)).is_some(), "C24: integers are keys");
    let fx = JValue::from(x);
    kani::assert(StreamMapKey::from_value_ref(&fx).is_none(), "C24: floats and null are not keys");
    // round trip back to JSON
    if let Some(k) = StreamMapKey::from_value_ref(&JValue::from(n)) {
        kani::assert(JValue::from(k) == JValue::from(n), "C24: a key converts back to its number");
    }
    kani::cover!(n >= 0, "non-negative i64 (is_i64 and is_u64 both hold)");
    kani::cover!(u > i64::MAX as u64, "u64 beyond i64");
    std::mem::forget(fx);
}

#[kani::proof]
#[kani::unwind(4)]
fn c24_map_key_strings_and_non_keys() {
    let pick: bool = kani::any();
    let s = if pick { "a" } else { "b" };
    let v = JValue::string(s);
    let by_ref = StreamMapKey::from_value_ref(&v);
    let lit = StreamMapKey::from(s);
    kani::assert(by_ref.as_ref() == Some(&lit), "C24: a string key from a scalar equals the literal string key");
    let b: bool = kani::any();
    kani::assert(StreamMapKey::from_value_ref(&JValue::Bool(b)).is_none() && StreamMapKey::from_value(JValue::Bool(b)).is_none(), "C24: bool is not a key");
    kani::assert(StreamMapKey::from_value_ref(&JValue::Null).is_none() && StreamMapKey::from_value(JValue::Null).is_none(), "C24: null is not a key");
    kani::cover!(pick, "key a");
    std::mem::forget((v, by_ref, lit));
}
