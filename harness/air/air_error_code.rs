//@ module: air_error_code
//@ crate: aquavm-air
//@ attach: air/src/execution_step/execution_context/instruction_error/instruction_error_definition.rs
//@ functions: ensure_error_code_correct; ensure_error_code_is_error
//@ stubs: alloc::fmt::format -> empty String
//@ assumes: the error_code field is a JSON number built from any u64 / i64 / f64, or a string / bool
//@ decides: C01: validating the error_code of a user error object never panics (in particular for integers beyond i64::MAX); it accepts exactly the non-zero integers that fit i64
//@ harness: name=c01_error_code_total playback=1 props=C01 panicfree=1 cap=600 cost=30 sym="u: any u64; n: any i64; x: any f64" bound="none"

use super::*;

fn fmt_stub(_: std::fmt::Arguments<'_>) -> String {
    String::new()
}

#[kani::proof]
#[kani::unwind(3)]
#[kani::stub(alloc::fmt::format, fmt_stub)]
fn c01_error_code_total() {
    let (u, n, x): (u64, i64, f64) = (kani::any(), kani::any(), kani::any());
    let scalar = JValue::Null;
    let ru = ensure_error_code_correct(&scalar, &JValue::from(u), ERROR_CODE_FIELD_NAME);
    kani::assert(ru.is_ok() == (u != 0 && u <= i64::MAX as u64), "C01/C18: a u64 error code is accepted iff it is non-zero and fits i64");
    let rn = ensure_error_code_correct(&scalar, &JValue::from(n), ERROR_CODE_FIELD_NAME);
    kani::assert(rn.is_ok() == (n != 0), "C18: every non-zero i64 is an error code");
    let fx = JValue::from(x);
    let rx = ensure_error_code_correct(&scalar, &fx, ERROR_CODE_FIELD_NAME);
    kani::assert(rx.is_err(), "C18: a float or null is not an error code");
    let rs = ensure_error_code_correct(&scalar, &JValue::Bool(true), ERROR_CODE_FIELD_NAME);
    kani::assert(rs.is_err(), "C18: a bool is not an error code");
    kani::cover!(u > i64::MAX as u64, "beyond i64");
    std::mem::forget((ru, rn, rx, rs, fx));
}
