// Shared Kani stubs for harnesses in the `air` crate (include!d into each harness module,
// because stub targets must be resolvable from the harness module itself).
#[allow(dead_code)]
fn fmt_stub(_: std::fmt::Arguments<'_>) -> String {
    String::new()
}
#[allow(dead_code)]
fn thread_current_stub() -> std::thread::Thread {
    kani::assume(false);
    loop {}
}
#[allow(dead_code)]
fn thread_park_stub() {
    kani::assume(false);
}
#[allow(dead_code)]
fn thread_unpark_stub(_t: &std::thread::Thread) {}
#[allow(dead_code)]
fn dispatcher_get_default_stub<T, F: FnMut(&tracing::Dispatch) -> T>(_f: F) -> T {
    kani::assume(false);
    loop {}
}
#[allow(dead_code)]
fn span_new_stub(_meta: &'static tracing::Metadata<'static>, _values: &tracing::field::ValueSet<'_>) -> tracing::Span {
    tracing::Span::none()
}
#[allow(dead_code)]
fn callsite_interest_stub(_c: &tracing::callsite::DefaultCallsite) -> tracing::subscriber::Interest {
    tracing::subscriber::Interest::never()
}
#[allow(dead_code)]
fn random_state_stub() -> std::hash::RandomState {
    unsafe { std::mem::transmute::<(u64, u64), std::hash::RandomState>((0, 0)) }
}
