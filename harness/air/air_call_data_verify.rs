//@ module: air_call_data_verify
//@ crate: aquavm-air
//@ attach: air/src/execution_step/instructions/call/call_result_setter.rs
//@ functions: populate_context_from_data (Scalar and Stream arms up to and including the parameter check; kind table); ExecutionCidState::resolve_service_info; verifier::verify_call
//@ stubs: Scalars::set_scalar_value / Streams::add_stream_value -> assert(false) (reaching the binding step with mismatching parameters IS the violation); ExecutionCidState::get_service_result_agg_by_cid / get_value_by_cid / get_tetraplet_by_cid -> return the harness's stored aggregate / value / tetraplet (the three are plain HashMap lookups; hashbrown inserts did not finish in 30 min; the code under test is the wiring of what is looked up into the parameter check); std::hash::RandomState::new -> fixed keys; alloc::fmt::format -> empty String; thread/tracing stubs as in _air_stubs.rs
//@ assumes: PARTIAL ExecutionCtx: no field is initialised (the CID-store getters are stubbed, nothing else is read before the parameter check rejects); the instruction's tetraplet / argument hash differ from the stored ones in at least one symbolically chosen component
//@ decides: C14: a stored call result (scalar or stream) whose stored tetraplet or argument hash does not match the instruction where it is used is rejected by populate_context_from_data before anything is bound; a stored result of the wrong kind for the instruction's output (scalar vs stream vs unused) is rejected
//@ outside: the accepting direction (needs the scalar / stream stores of the full context), digest verification of the CIDs themselves
//@ harness: name=c14_stored_scalar_result_must_match_instruction props=C14 cap=1800 cost=200 sym="which of the 5 components (hash, peer, service, function, lens) differ between instruction and stored aggregate: any non-empty subset" bound="one stored aggregate; 1-byte strings"
//@ harness: name=c14_stored_stream_result_must_match_instruction props=C14 cap=1800 cost=200 sym="same; any generation; value source previous/current" bound="same"
//@ harness: name=c14_stored_result_kind_must_match_output props=C14,C04 cap=1800 cost=200 sym="stored kind scalar/stream/unused vs output kind (6 mismatching pairs chosen symbolically)" bound="same"

use super::*;
use air_interpreter_cid::CID;
use air_interpreter_data::RawValue;
use air_interpreter_data::ServiceResultCidAggregate;
use std::mem::MaybeUninit;

include!("_air_stubs.rs");

fn pick(b: bool, x: &'static str, y: &'static str) -> String {
    if b {
        x.to_string()
    } else {
        y.to_string()
    }
}

fn tetraplet(c: [bool; 4]) -> crate::SecurityTetraplet {
    crate::SecurityTetraplet {
        peer_pk: pick(c[0], "p", "q"),
        service_id: pick(c[1], "s", "t"),
        function_name: pick(c[2], "f", "g"),
        lens: pick(c[3], "", "l"),
    }
}

static mut STORED_TETRAPLET: [bool; 4] = [false; 4];
static mut STORED_HASH: bool = false;

fn agg_stub(_s: &ExecutionCidState, _cid: &CID<ServiceResultCidAggregate>) -> Result<Rc<ServiceResultCidAggregate>, UncatchableError> {
    let hash = unsafe { pick(STORED_HASH, "h", "k") };
    Ok(Rc::new(ServiceResultCidAggregate::new(CID::new("v1"), hash.into(), CID::new("t1"))))
}
fn value_stub(_s: &ExecutionCidState, _cid: &CID<RawValue>) -> Result<crate::JValue, UncatchableError> {
    Ok(crate::JValue::Null)
}
fn tetraplet_stub(_s: &ExecutionCidState, _cid: &CID<crate::SecurityTetraplet>) -> Result<RcSecurityTetraplet, UncatchableError> {
    Ok(Rc::new(tetraplet(unsafe { STORED_TETRAPLET })))
}

/// Binding a stored result into the scalar / stream store is the step that must NOT be reached when the
/// parameters mismatch: the stubs turn reaching it into a failed check (and keep CBMC out of hashbrown
/// running on uninitialised context fields).
fn set_scalar_stub<'i: 'i>(_s: &mut Scalars<'i>, _name: impl Into<String>, value: ValueAggregate) -> ExecutionResult<bool> {
    kani::assert(false, "C14: a stored result with mismatching parameters or kind must not be bound to a scalar");
    std::mem::forget(value);
    Ok(true)
}
fn add_stream_value_stub(_s: &mut Streams, d: StreamValueDescriptor<'_>) -> ExecutionResult<()> {
    kani::assert(false, "C14: a stored result with mismatching parameters or kind must not be added to a stream");
    std::mem::forget(d);
    Ok(())
}

/// context whose CID stores are never read (getters stubbed): nothing initialised
fn ctx_with_stored_result(stored: [bool; 4], stored_hash: bool) -> MaybeUninit<ExecutionCtx<'static>> {
    unsafe {
        STORED_TETRAPLET = stored;
        STORED_HASH = stored_hash;
    }
    MaybeUninit::<ExecutionCtx<'static>>::uninit()
}

fn any4() -> [bool; 4] {
    [kani::any(), kani::any(), kani::any(), kani::any()]
}

fn mismatch_body(stream: bool) {
    let (stored, expected) = (any4(), any4());
    let (stored_hash, expected_hash): (bool, bool) = (kani::any(), kani::any());
    let all_equal = stored_hash == expected_hash && stored[0] == expected[0] && stored[1] == expected[1] && stored[2] == expected[2] && stored[3] == expected[3];
    kani::assume(!all_equal);
    let mut u = ctx_with_stored_result(stored, stored_hash);
    let ctx = unsafe { &mut *u.as_mut_ptr() };
    let tetr = Rc::new(tetraplet(expected));
    let hash = pick(expected_hash, "h", "k");
    let g: u32 = kani::any();
    let from_prev: bool = kani::any();
    let source = if from_prev { ValueSource::PreviousData } else { ValueSource::CurrentData };
    let r = if stream {
        let value = ValueRef::Stream {
            cid: CID::new("a1"),
            generation: (g as usize).into(),
        };
        let out = CallOutputValue::Stream(air_parser::ast::Stream { name: "$s", position: 0.into() });
        populate_context_from_data(value, &hash, tetr.clone(), 0.into(), source, &out, ctx)
    } else {
        let value = ValueRef::Scalar(CID::new("a1"));
        let out = CallOutputValue::Scalar(air_parser::ast::Scalar { name: "x", position: 0.into() });
        populate_context_from_data(value, &hash, tetr.clone(), 0.into(), source, &out, ctx)
    };
    kani::assert(
        matches!(&r, Err(ExecutionError::Uncatchable(UncatchableError::InstructionParametersMismatch { .. }))),
        "C14: a stored result whose tetraplet or argument hash differs from the instruction's is rejected by the parameter check"
    );
    kani::cover!(stored_hash == expected_hash && stored[0] != expected[0], "only the peer differs");
    kani::cover!(stored_hash != expected_hash && stored[0] == expected[0] && stored[1] == expected[1] && stored[2] == expected[2] && stored[3] == expected[3], "only the argument hash differs");
    std::mem::forget((r, tetr, hash));
    std::mem::forget(u);
}

macro_rules! with_stubs {
    ($name:ident, $body:expr) => {
        #[kani::proof]
        #[kani::unwind(6)]
        #[kani::stub(crate::execution_step::execution_context::cid_state::ExecutionCidState::get_service_result_agg_by_cid, agg_stub)]
        #[kani::stub(crate::execution_step::execution_context::cid_state::ExecutionCidState::get_value_by_cid, value_stub)]
        #[kani::stub(crate::execution_step::execution_context::cid_state::ExecutionCidState::get_tetraplet_by_cid, tetraplet_stub)]
        #[kani::stub(crate::execution_step::execution_context::scalar_variables::Scalars::set_scalar_value, set_scalar_stub)]
        #[kani::stub(crate::execution_step::execution_context::streams_variables::Streams::add_stream_value, add_stream_value_stub)]
        #[kani::stub(alloc::fmt::format, fmt_stub)]
        fn $name() {
            $body
        }
    };
}

with_stubs!(c14_stored_scalar_result_must_match_instruction, mismatch_body(false));
with_stubs!(c14_stored_stream_result_must_match_instruction, mismatch_body(true));

fn kind_body() {
    let t = any4();
    let mut u = ctx_with_stored_result(t, true);
    let ctx = unsafe { &mut *u.as_mut_ptr() };
    let tetr = Rc::new(tetraplet(t));
    let stored_kind: u8 = kani::any();
    let out_kind: u8 = kani::any();
    kani::assume(stored_kind < 3 && out_kind < 3 && stored_kind != out_kind);
    let g: u32 = kani::any();
    let value = match stored_kind {
        0 => ValueRef::Scalar(CID::new("a1")),
        1 => ValueRef::Stream {
            cid: CID::new("a1"),
            generation: (g as usize).into(),
        },
        _ => ValueRef::Unused(CID::new("v1")),
    };
    let out = match out_kind {
        0 => CallOutputValue::Scalar(air_parser::ast::Scalar { name: "x", position: 0.into() }),
        1 => CallOutputValue::Stream(air_parser::ast::Stream { name: "$s", position: 0.into() }),
        _ => CallOutputValue::None,
    };
    let r = populate_context_from_data(value, "h", tetr.clone(), 0.into(), ValueSource::CurrentData, &out, ctx);
    kani::assert(
        matches!(&r, Err(ExecutionError::Uncatchable(UncatchableError::CallResultNotCorrespondToInstr(_)))),
        "C14: a stored result of another kind than the instruction's output is rejected"
    );
    kani::cover!(stored_kind == 2 && out_kind == 0, "unused result for a scalar output");
    std::mem::forget((r, tetr, out));
    std::mem::forget(u);
}

with_stubs!(c14_stored_result_kind_must_match_output, kind_body());
