//@ module: air_lens_utils
//@ crate: aquavm-air
//@ attach: air/src/execution_step/lambda_applier/utils.rs
//@ functions: try_jvalue_with_idx; try_jvalue_with_field_name; select_by_jvalue; try_jvalue_as_idx; try_number_to_u32
//@ stubs: alloc::fmt::format -> empty String (not reached by these kernels; kept for error constructors)
//@ assumes: JSON values are concrete shapes: [10,20], 7, "s", null, {"a":1,"b":[5]}; the index / accessor number / field name are symbolic
//@ decides: C24: an array index selects exactly element idx and fails iff idx is out of range or the value is not an array, for every u32; an accessor number is accepted iff it is a non-negative integer <= u32::MAX (any u64 / i64 / f64); a field name selects exactly that member and fails iff it is absent or the value is not an object; accessors of other JSON types are rejected
//@ outside: the lambda parser; paths longer than 1 step are folds of these steps (select_by_path_from_scalar is a loop over them) - decided for 2-step paths in air_lens_path if tractable; canon stream / map first-index selection
//@ harness: name=c24_index_selection playback=1 props=C24 cap=600 cost=30 sym="idx: any u32" bound="array of 2 elements; non-array shapes 7, \"s\", null"
//@ harness: name=c24_accessor_number playback=1 props=C24 cap=600 cost=30 sym="u: any u64; n: any i64; x: any f64" bound="none"
//@ harness: name=c24_select_by_number_accessor playback=1 props=C24 cap=900 cost=60 sym="accessor number: any u64" bound="array of 2 elements"
//@ harness: name=c24_field_selection playback=1 props=C24 tier=thorough core=0 cap=3000 cost=200 sym="field name chosen among a, b, zz, empty" bound="object {a:1,b:[5]} and non-object shapes"
//@ harness: name=c24_lens_vacuity playback=1 props=C24 expect=fail cap=600 cost=30 sym="idx: any u32" bound="array of 2"

use super::*;

fn fmt_stub(_: std::fmt::Arguments<'_>) -> String {
    String::new()
}

fn arr2() -> JValue {
    JValue::array(vec![JValue::from(10u32), JValue::from(20u32)])
}

fn index_body(twin: bool) {
    let idx: u32 = kani::any();
    let a = arr2();
    let r = try_jvalue_with_idx(&a, idx);
    match &r {
        Ok(v) => {
            kani::assert(idx < 2, "C24: only existing indices select");
            kani::assert(**v == JValue::from(if idx == 0 { 10u32 } else { 20u32 }), "C24: element idx is selected");
        }
        Err(e) => {
            kani::assert(idx >= 2, "C24: fails only when out of range");
            kani::assert(matches!(e, LambdaError::ValueNotContainSuchArrayIdx { idx: i, .. } if *i == idx), "C24: out-of-range error");
        }
    }
    kani::cover!(r.is_ok() && idx == 1, "second element");
    kani::cover!(r.is_err(), "out of range");
    if twin && r.is_ok() {
        kani::assert(false, "vacuity twin");
    }
    std::mem::forget(r);
    // non-arrays never accept an index
    let seven = JValue::from(7u32);
    let s = JValue::string("s");
    let r1 = try_jvalue_with_idx(&seven, idx);
    let r2 = try_jvalue_with_idx(&s, idx);
    let r3 = try_jvalue_with_idx(&JValue::Null, idx);
    kani::assert(matches!(&r1, Err(LambdaError::ArrayAccessorNotMatchValue { .. })), "C24: number is not indexable");
    kani::assert(matches!(&r2, Err(LambdaError::ArrayAccessorNotMatchValue { .. })), "C24: string is not indexable");
    kani::assert(matches!(&r3, Err(LambdaError::ArrayAccessorNotMatchValue { .. })), "C24: null is not indexable");
    std::mem::forget(r1);
    std::mem::forget(r2);
    std::mem::forget(r3);
    std::mem::forget(seven);
    std::mem::forget(s);
    std::mem::forget(a);
}

#[kani::proof]
#[kani::unwind(4)]
#[kani::stub(alloc::fmt::format, fmt_stub)]
fn c24_index_selection() {
    index_body(false);
}

#[kani::proof]
#[kani::unwind(4)]
#[kani::stub(alloc::fmt::format, fmt_stub)]
fn c24_lens_vacuity() {
    index_body(true);
}

#[kani::proof]
#[kani::unwind(4)]
fn c24_accessor_number() {
    let u: u64 = kani::any();
    let n: i64 = kani::any();
    let x: f64 = kani::any();
    let ru = try_number_to_u32(&serde_json::Number::from(u));
    kani::assert(matches!(&ru, Ok(v) if *v as u64 == u) == (u <= u32::MAX as u64), "C24: u64 accessor accepted iff <= u32::MAX");
    kani::assert(ru.is_ok() == (u <= u32::MAX as u64), "C24: u64 accessor rejected otherwise");
    let rn = try_number_to_u32(&serde_json::Number::from(n));
    kani::assert(rn.is_ok() == (n >= 0 && n <= u32::MAX as i64), "C24: negative or too large integers rejected");
    if let Ok(v) = &rn {
        kani::assert(*v as i64 == n, "C24: value preserved");
    }
    if let Some(num) = serde_json::Number::from_f64(x) {
        let rx = try_number_to_u32(&num);
        kani::assert(rx.is_err(), "C24: a float is never an index");
        std::mem::forget(rx);
    }
    let as_idx = try_jvalue_as_idx(&JValue::from(u));
    kani::assert(as_idx.is_ok() == (u <= u32::MAX as u64), "C24: stream index from a scalar");
    let bad = try_jvalue_as_idx(&JValue::string("1"));
    kani::assert(matches!(&bad, Err(LambdaError::StreamAccessorHasInvalidType { .. })), "C24: a string is not a stream index");
    kani::cover!(u == u32::MAX as u64, "u32::MAX accepted");
    kani::cover!(u == u32::MAX as u64 + 1, "u32::MAX + 1 rejected");
    std::mem::forget(ru);
    std::mem::forget(rn);
    std::mem::forget(as_idx);
    std::mem::forget(bad);
}

#[kani::proof]
#[kani::unwind(4)]
#[kani::stub(alloc::fmt::format, fmt_stub)]
fn c24_select_by_number_accessor() {
    let u: u64 = kani::any();
    let a = arr2();
    let acc = JValue::from(u);
    let r = select_by_jvalue(&a, &acc);
    kani::assert(r.is_ok() == (u < 2), "C24: a scalar number accessor behaves as the literal index");
    if let Ok(v) = &r {
        kani::assert(**v == JValue::from(if u == 0 { 10u32 } else { 20u32 }), "C24: element selected");
    }
    let rb = select_by_jvalue(&a, &JValue::Bool(true));
    let rn = select_by_jvalue(&a, &JValue::Null);
    kani::assert(matches!(&rb, Err(LambdaError::ScalarAccessorHasInvalidType { .. })), "C24: bool accessor rejected");
    kani::assert(matches!(&rn, Err(LambdaError::ScalarAccessorHasInvalidType { .. })), "C24: null accessor rejected");
    kani::cover!(r.is_ok(), "selected");
    kani::cover!(u > u32::MAX as u64, "accessor beyond u32");
    std::mem::forget(r);
    std::mem::forget(rb);
    std::mem::forget(rn);
    std::mem::forget(a);
    std::mem::forget(acc);
}

#[kani::proof]
#[kani::unwind(6)]
#[kani::stub(alloc::fmt::format, fmt_stub)]
fn c24_field_selection() {
    let inner = JValue::array(vec![JValue::from(5u32)]);
    let obj = JValue::object_from_pairs(vec![("a", JValue::from(1u32)), ("b", inner.clone())]);
    let which: u8 = kani::any();
    kani::assume(which < 4);
    let name = match which {
        0 => "a",
        1 => "b",
        2 => "zz",
        _ => "",
    };
    let r = try_jvalue_with_field_name(&obj, name);
    match which {
        0 => kani::assert(matches!(&r, Ok(v) if **v == JValue::from(1u32)), "C24: member a"),
        1 => kani::assert(matches!(&r, Ok(v) if **v == inner), "C24: member b"),
        _ => kani::assert(matches!(&r, Err(LambdaError::ValueNotContainSuchField { .. })), "C24: absent member is an error"),
    }
    let by_acc = select_by_jvalue(&obj, &JValue::string(name));
    kani::assert(by_acc.is_ok() == r.is_ok(), "C24: a scalar string accessor behaves as the literal field name");
    let arr = arr2();
    let r_arr = try_jvalue_with_field_name(&arr, name);
    kani::assert(matches!(&r_arr, Err(LambdaError::FieldAccessorNotMatchValue { .. })), "C24: an array has no fields");
    let r_idx = try_jvalue_with_idx(&obj, kani::any());
    kani::assert(matches!(&r_idx, Err(LambdaError::ArrayAccessorNotMatchValue { .. })), "C24: an object has no indices");
    kani::cover!(r.is_ok() && which == 1, "member b selected");
    kani::cover!(r.is_err(), "absent member");
    std::mem::forget(r);
    std::mem::forget(by_acc);
    std::mem::forget(r_arr);
    std::mem::forget(r_idx);
    std::mem::forget(obj);
    std::mem::forget(arr);
    std::mem::forget(inner);
}
