//@ module: air_verify_canon
//@ crate: aquavm-air
//@ attach: air/src/execution_step/instructions/canon_utils/mod.rs
//@ functions: verify_canon
//@ stubs: alloc::fmt::format -> empty String
//@ assumes: tetraplet components chosen symbolically from 2-string palettes of 1-byte strings
//@ decides: C14: verify_canon accepts iff all four tetraplet components are equal
//@ harness: name=c14_verify_canon_iff_equal props=C14,C04 cap=600 cost=20 sym="8 symbolic component choices" bound="2-string palette per component, unwind 4"

use super::*;

fn fmt_stub(_: std::fmt::Arguments<'_>) -> String {
    String::new()
}

fn pick(b: bool, x: &'static str, y: &'static str) -> String {
    if b {
        x.to_string()
    } else {
        y.to_string()
    }
}

fn tetraplet(c: [bool; 4]) -> SecurityTetraplet {
    SecurityTetraplet {
        peer_pk: pick(c[0], "p", "q"),
        service_id: pick(c[1], "s", "t"),
        function_name: pick(c[2], "f", "g"),
        lens: pick(c[3], "", "l"),
    }
}

#[kani::proof]
#[kani::unwind(4)]
#[kani::stub(alloc::fmt::format, fmt_stub)]
fn c14_verify_canon_iff_equal() {
    let e: [bool; 4] = [kani::any(), kani::any(), kani::any(), kani::any()];
    let s: [bool; 4] = [kani::any(), kani::any(), kani::any(), kani::any()];
    let expected = tetraplet(e);
    let stored = tetraplet(s);
    let r = verify_canon(&expected, &stored);
    let all_equal = e[0] == s[0] && e[1] == s[1] && e[2] == s[2] && e[3] == s[3];
    kani::assert(r.is_ok() == all_equal, "C14: canon parameters accepted iff every tetraplet component matches");
    kani::cover!(r.is_ok(), "accepted");
    kani::cover!(r.is_err(), "rejected");
    std::mem::forget(r);
    std::mem::forget((expected, stored));
}
