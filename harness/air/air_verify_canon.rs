//@ module: air_verify_canon
//@ crate: aquavm-air
//@ attach: air/src/execution_step/instructions/canon_utils/mod.rs
//@ functions: verify_canon; handle_unseen_canon; handle_canon_request_sent_by; resolve_peer_id_to_string (literal); TraceHandler::meet_canon_end
//@ stubs: alloc::fmt::format -> empty String
//@ assumes: tetraplet components chosen symbolically from 2-string palettes of 1-byte strings
//@ decides: C14: verify_canon accepts iff all four tetraplet components are equal
//@ decides: C19/C11: a canon met for the first time is canonicalized only when addressed to the current peer; otherwise exactly its target is pushed to the next peers, the subgraph is marked incomplete and RequestSentBy(current peer) is recorded; a stored canon request is kept unchanged (no new forwarding) unless the canon is addressed to the current peer
//@ harness: name=c19_unseen_canon_forwards_or_canonicalizes props=C19,C11 cap=1800 cost=120 sym="target peer of the canon: me / other (literal); next-peer list initially empty or holding one entry" bound="partial context (next_peer_pks, run_parameters, completeness flag); the closures that create the canon stream are cut (assume false) after recording that they were reached"
//@ harness: name=c11_pending_canon_request_kept_or_canonicalized props=C11,C19,C07 cap=1800 cost=120 sym="target peer me / other; sender of the stored request p / q" bound="same"
//@ harness: name=c14_verify_canon_iff_equal props=C14,C04 cap=600 cost=20 sym="8 symbolic component choices" bound="2-string palette per component, unwind 4"

use super::*;

fn fmt_stub(_: std::fmt::Arguments<'_>) -> String {
    String::new()
}

fn pick(b: bool, x: &'static str, y: &'static str) -> String {
    if b {
        x.to_string()
    } else {
        y.to_string()
    }
}

fn tetraplet(c: [bool; 4]) -> SecurityTetraplet {
    SecurityTetraplet {
        peer_pk: pick(c[0], "p", "q"),
        service_id: pick(c[1], "s", "t"),
        function_name: pick(c[2], "f", "g"),
        lens: pick(c[3], "", "l"),
    }
}

#[kani::proof]
#[kani::unwind(4)]
#[kani::stub(alloc::fmt::format, fmt_stub)]
fn c14_verify_canon_iff_equal() {
    let e: [bool; 4] = [kani::any(), kani::any(), kani::any(), kani::any()];
    let s: [bool; 4] = [kani::any(), kani::any(), kani::any(), kani::any()];
    let expected = tetraplet(e);
    let stored = tetraplet(s);
    let r = verify_canon(&expected, &stored);
    let all_equal = e[0] == s[0] && e[1] == s[1] && e[2] == s[2] && e[3] == s[3];
    kani::assert(r.is_ok() == all_equal, "C14: canon parameters accepted iff every tetraplet component matches");
    kani::cover!(r.is_ok(), "accepted");
    kani::cover!(r.is_err(), "rejected");
    std::mem::forget(r);
    std::mem::forget((expected, stored));
}

use crate::execution_step::execution_context::RcRunParameters;
use std::mem::MaybeUninit;
use std::ptr::addr_of_mut;
use std::rc::Rc;

fn partial_ctx(me: &str) -> MaybeUninit<ExecutionCtx<'static>> {
    let mut u = MaybeUninit::<ExecutionCtx<'static>>::uninit();
    let p = u.as_mut_ptr();
    unsafe {
        addr_of_mut!((*p).next_peer_pks).write(Vec::new());
        addr_of_mut!((*p).run_parameters).write(RcRunParameters {
            init_peer_id: "i".into(),
            current_peer_id: Rc::new(me.to_string()),
            salt: "".into(),
            timestamp: 0,
            ttl: 0,
        });
        (*p).set_subgraph_completeness(true);
    }
    u
}

fn random_state_stub() -> std::hash::RandomState {
    unsafe { std::mem::transmute::<(u64, u64), std::hash::RandomState>((0, 0)) }
}

static mut TARGET_IS_ME: bool = false;

/// reached only when the interpreter decides to canonicalize the stream on this peer
fn create_stream(_ctx: &mut ExecutionCtx<'_>, _peer: String) -> CanonStream {
    kani::assert(unsafe { TARGET_IS_ME }, "C11/C19: a stream is canonicalized only by the peer the canon is addressed to");
    kani::cover!(true, "the designated peer canonicalizes");
    kani::assume(false);
    loop {}
}

fn epilog(_s: CanonStream, _c: CID<CanonResultCidAggregate>, _ctx: &mut ExecutionCtx<'_>, _t: &mut TraceHandler) -> ExecutionResult<()> {
    kani::assert(false, "harness: the epilog is never reached (creation is cut)");
    Ok(())
}

#[kani::proof]
#[kani::unwind(6)]
#[kani::stub(std::hash::RandomState::new, random_state_stub)]
#[kani::stub(alloc::fmt::format, fmt_stub)]
fn c19_unseen_canon_forwards_or_canonicalizes() {
    let mut u = partial_ctx("me");
    let ctx = unsafe { &mut *u.as_mut_ptr() };
    let mut trace = TraceHandler::default();
    let target_me: bool = kani::any();
    unsafe { TARGET_IS_ME = target_me };
    let had_one: bool = kani::any();
    if had_one {
        ctx.next_peer_pks.push("zero".to_string());
    }
    let target = ResolvableToPeerIdVariable::Literal(if target_me { "me" } else { "other" });
    let r = handle_unseen_canon(&epilog, &create_stream, &target, ctx, &mut trace);
    // only the remote case returns (the local case is cut inside create_stream after its checks)
    kani::assert(!target_me, "harness: the local case ends in create_stream");
    kani::assert(r.is_ok(), "C19: forwarding a canon never fails");
    let n = ctx.next_peer_pks.len();
    kani::assert(n == had_one as usize + 1 && ctx.next_peer_pks[n - 1] == "other", "C19: exactly the canon's target is added to the next peers");
    kani::assert(!ctx.is_subgraph_complete(), "C19: subgraph incomplete after forwarding");
    let emitted = trace.as_result_trace();
    kani::assert(emitted.len() == 1, "C19: one state emitted");
    kani::assert(
        matches!(emitted.get(0.into()), Some(air_interpreter_data::ExecutedState::Canon(CanonResult::RequestSentBy(p))) if p.as_str() == "me"),
        "C19: the canon is recorded as sent by the current peer"
    );
    kani::cover!(!target_me && had_one, "forwarded with an earlier next peer");
    std::mem::forget((r, trace));
    std::mem::forget(u);
}

#[kani::proof]
#[kani::unwind(6)]
#[kani::stub(std::hash::RandomState::new, random_state_stub)]
#[kani::stub(alloc::fmt::format, fmt_stub)]
fn c11_pending_canon_request_kept_or_canonicalized() {
    let mut u = partial_ctx("me");
    let ctx = unsafe { &mut *u.as_mut_ptr() };
    let mut trace = TraceHandler::default();
    let target_me: bool = kani::any();
    unsafe { TARGET_IS_ME = target_me };
    let sender_p: bool = kani::any();
    let stored = CanonResult::request_sent_by(Rc::new(if sender_p { "p" } else { "q" }.to_string()));
    let expected_back = stored.clone();
    let target = ResolvableToPeerIdVariable::Literal(if target_me { "me" } else { "other" });
    let r = handle_canon_request_sent_by(&epilog, &create_stream, &target, stored, ctx, &mut trace);
    kani::assert(!target_me, "harness: the local case ends in create_stream");
    kani::assert(r.is_ok(), "C11: keeping a pending canon request never fails");
    kani::assert(ctx.next_peer_pks.is_empty(), "C19/C07: a stored canon request does not forward the particle again");
    kani::assert(!ctx.is_subgraph_complete(), "C19: subgraph incomplete while the canon is pending elsewhere");
    let emitted = trace.as_result_trace();
    kani::assert(
        emitted.len() == 1 && matches!(emitted.get(0.into()), Some(air_interpreter_data::ExecutedState::Canon(c)) if *c == expected_back),
        "C11/C07: the stored request is re-emitted unchanged"
    );
    kani::cover!(!target_me && !sender_p, "kept");
    std::mem::forget((r, trace, expected_back));
    std::mem::forget(u);
}
