//@ module: air_limits
//@ crate: aquavm-air
//@ attach: air/src/preparation_step/sizes_limits_check.rs
//@ functions: check_against_size_limits; handle_limit_exceeding; PreparationError::air_size_limit; PreparationError::particle_size_limit
//@ assumes: script and data are prefixes (symbolic length 0..=8) of fixed 8-byte buffers: only their lengths are read by the kernel
//@ decides: C22: a limit flag is raised iff the size is strictly larger than its limit; hard mode rejects iff some flag is raised, with the error of the first exceeded limit carrying the actual size and the limit; sizes at or below a limit never trigger it
//@ outside: the per-call-result limit (inside make_exec_ctx, which ends by building an ExecutionCtx), the routing of the error to "previous data returned" (runner.rs), soft mode behaving otherwise as an unlimited run
//@ harness: name=c22_limits_exact playback=1 props=C22 cap=600 cost=90 sym="air_size_limit, particle_size_limit, call_result_size_limit: any u64; hard_limit_enabled: any bool; air.len(), data.len(): 0..=8" bound="lengths 0..=8 against arbitrary 64-bit limits"
//@ harness: name=c22_handle_limit_exceeding playback=1 props=C22 cap=300 cost=10 sym="hard_limit_enabled any bool; initial flag any bool" bound="none (loop-free)"
//@ harness: name=c22_limits_vacuity playback=1 props=C22 expect=fail cap=600 cost=90 sym="as c22_limits_exact" bound="same"

use super::*;
use crate::preparation_step::errors::SizeLimitsExceded;

fn params(air: u64, particle: u64, call: u64, hard: bool) -> RunParameters {
    RunParameters {
        init_peer_id: String::new(),
        current_peer_id: String::new(),
        timestamp: 0,
        ttl: 0,
        key_format: 0,
        secret_key_bytes: Vec::new(),
        particle_id: String::new(),
        air_size_limit: air,
        particle_size_limit: particle,
        call_result_size_limit: call,
        hard_limit_enabled: hard,
    }
}

static AIR_BUF: [u8; 8] = *b"(null)  ";
static DATA_BUF: [u8; 8] = [7u8; 8];

fn limits_body(twin: bool) {
    let (la, lp, lc): (u64, u64, u64) = (kani::any(), kani::any(), kani::any());
    let hard: bool = kani::any();
    let (n, m): (usize, usize) = (kani::any(), kani::any());
    kani::assume(n <= 8 && m <= 8);
    let p = params(la, lp, lc, hard);
    let air = unsafe { std::str::from_utf8_unchecked(&AIR_BUF[..n]) };
    let data = &DATA_BUF[..m];
    let r = check_against_size_limits(&p, air, data);
    let air_big = n as u64 > la;
    let data_big = m as u64 > lp;
    match &r {
        Ok(flags) => {
            kani::assert(!(hard && (air_big || data_big)), "C22: hard mode never accepts an oversized input");
            kani::assert(flags.air_size_limit_exceeded == air_big, "C22: air flag iff air.len() > limit");
            kani::assert(flags.particle_size_limit_exceeded == data_big, "C22: particle flag iff data.len() > limit");
            kani::assert(!flags.call_result_size_limit_exceeded, "C22: call result flag untouched here");
        }
        Err(e) => {
            kani::assert(hard && (air_big || data_big), "C22: rejected only in hard mode with an exceeded limit");
            match e {
                PreparationError::SizeLimitsExceded(SizeLimitsExceded::Air(actual, limit)) => {
                    kani::assert(air_big && *actual == n && *limit == la, "C22: air error carries the actual size and the limit");
                }
                PreparationError::SizeLimitsExceded(SizeLimitsExceded::Particle(actual, limit)) => {
                    kani::assert(!air_big && data_big && *actual == m && *limit == lp, "C22: particle error only if air fits");
                }
                _ => kani::assert(false, "C22: a size error is reported"),
            }
        }
    }
    kani::cover!(r.is_ok() && n as u64 == la && n > 0, "size == limit accepted");
    kani::cover!(r.is_err(), "rejected");
    kani::cover!(matches!(&r, Ok(f) if f.air_size_limit_exceeded && f.particle_size_limit_exceeded), "both soft flags");
    if twin && r.is_err() {
        kani::assert(false, "vacuity twin");
    }
    std::mem::forget(r);
    std::mem::forget(p);
}

#[kani::proof]
#[kani::unwind(10)]
fn c22_limits_exact() {
    limits_body(false);
}

#[kani::proof]
#[kani::unwind(10)]
fn c22_limits_vacuity() {
    limits_body(true);
}

#[kani::proof]
#[kani::unwind(2)]
fn c22_handle_limit_exceeding() {
    let hard: bool = kani::any();
    let mut flag: bool = kani::any();
    let lim: u64 = kani::any();
    let p = params(0, 0, lim, hard);
    let r = handle_limit_exceeding(&p, PreparationError::call_result_size_limit(lim), &mut flag);
    kani::assert(flag, "C22: the flag is always raised");
    kani::assert(r.is_err() == hard, "C22: error iff hard mode");
    if let Err(e) = &r {
        kani::assert(
            matches!(e, PreparationError::SizeLimitsExceded(SizeLimitsExceded::CallResult(l)) if *l == lim),
            "C22: the given error is returned"
        );
    }
    kani::cover!(r.is_ok(), "soft");
    kani::cover!(r.is_err(), "hard");
    std::mem::forget(r);
    std::mem::forget(p);
}
