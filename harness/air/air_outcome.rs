//@ module: air_outcome
//@ crate: aquavm-air
//@ attach: air/src/farewell_step/outcome.rs
//@ functions: dedup (next-peer list); from_uncatchable_error; InterpreterOutcome::new; CallRequestsRepr::serialize (empty map); execution_error_into_outcome is deliberately NOT asserted against (no public input reaching it is known)
//@ stubs: tracing span/dispatcher -> disabled; std::thread::current/park -> assume(false), Thread::unpark -> no-op; std::hash::RandomState::new -> fixed keys; alloc::fmt::format -> empty String
//@ assumes: error = harness type with any i64 code and an empty message; data = 4 symbolic bytes, or empty
//@ decides: C02: the outcome built for a preparation / uncatchable failure carries exactly the given previous data byte for byte, the error's code, no next peers, the encoding of an empty call-request map, and the limit flags unchanged
//@ outside: that execute_air_impl routes every failing step to this function with raw_prev_data (farewell_if_fail! call sites need a full run); the success / catchable half of C02 (needs complete runs)
//@ harness: name=c02_failure_outcome_returns_prev_data props=C02 cap=1800 cost=200 sym="data: 4 any bytes; error code: any i64; 3 limit flags: any" bound="data length 4"
//@ harness: name=c02_failure_outcome_empty_prev_data props=C02 cap=1800 cost=200 sym="error code: any i64; 3 limit flags: any" bound="empty previous data (first run of a particle on a peer)"
//@ harness: name=c19_dedup_next_peers props=C19 tier=thorough core=0 cap=1200 cost=600 sym="three peer names chosen symbolically from {p,q}" bound="list of 3; HashSet with fixed SipHash keys"

use super::*;
include!("_air_stubs.rs");

#[derive(Debug)]
struct AnyError(i64);

impl ToErrorCode for AnyError {
    fn to_error_code(&self) -> i64 {
        self.0
    }
}

impl std::fmt::Display for AnyError {
    fn fmt(&self, _f: &mut std::fmt::Formatter<'_>) -> std::fmt::Result {
        Ok(())
    }
}

fn outcome_body(empty: bool) {
    let bytes: [u8; 4] = kani::any();
    let code: i64 = kani::any();
    let flags = SoftLimitsTriggering {
        air_size_limit_exceeded: kani::any(),
        particle_size_limit_exceeded: kani::any(),
        call_result_size_limit_exceeded: kani::any(),
    };
    let data: Vec<u8> = if empty { Vec::new() } else { bytes.to_vec() };
    let o = from_uncatchable_error(data, AnyError(code), flags);
    kani::assert(o.ret_code == code, "C02: the outcome carries the error's code");
    if empty {
        kani::assert(o.data.is_empty(), "C02: empty previous data stays empty");
    } else {
        kani::assert(o.data.len() == 4 && o.data[0] == bytes[0] && o.data[1] == bytes[1] && o.data[2] == bytes[2] && o.data[3] == bytes[3], "C02: previous data returned byte for byte");
    }
    kani::assert(o.next_peer_pks.is_empty(), "C02: no next peers on failure");
    kani::assert(o.error_message.is_empty(), "C02: message is the error's rendering");
    kani::assert(o.air_size_limit_exceeded == flags.air_size_limit_exceeded && o.particle_size_limit_exceeded == flags.particle_size_limit_exceeded && o.call_result_size_limit_exceeded == flags.call_result_size_limit_exceeded, "C02/C22: limit flags passed through");
    let empty_requests = CallRequestsRepr.serialize(&CallRequests::new());
    kani::assert(matches!(&empty_requests, Ok(r) if r[..] == o.call_requests[..]), "C02: call requests are the encoding of the empty map");
    kani::cover!(empty || bytes[0] != 0, "non-trivial data (or the empty data)");
    kani::cover!(code < 0, "negative code");
    std::mem::forget(o);
    std::mem::forget(empty_requests);
}

macro_rules! outcome_harness {
    ($name:ident, $empty:expr) => {
        #[kani::proof]
        #[kani::unwind(10)]
        #[kani::stub(std::hash::RandomState::new, random_state_stub)]
        #[kani::stub(alloc::fmt::format, fmt_stub)]
        #[kani::stub(std::thread::current::current, thread_current_stub)]
        #[kani::stub(std::thread::park, thread_park_stub)]
        #[kani::stub(std::thread::Thread::unpark, thread_unpark_stub)]
        #[kani::stub(tracing::dispatcher::get_default, dispatcher_get_default_stub)]
        #[kani::stub(tracing::span::Span::new, span_new_stub)]
        fn $name() {
            outcome_body($empty);
        }
    };
}

outcome_harness!(c02_failure_outcome_returns_prev_data, false);
outcome_harness!(c02_failure_outcome_empty_prev_data, true);

#[kani::proof]
#[kani::unwind(8)]
#[kani::stub(std::hash::RandomState::new, random_state_stub)]
#[kani::stub(alloc::fmt::format, fmt_stub)]
fn c19_dedup_next_peers() {
    let picks: [bool; 3] = [kani::any(), kani::any(), kani::any()];
    let name = |b: bool| if b { "p".to_string() } else { "q".to_string() };
    let v = vec![name(picks[0]), name(picks[1]), name(picks[2])];
    let out = dedup(v);
    let has_p = picks[0] || picks[1] || picks[2];
    let has_q = !picks[0] || !picks[1] || !picks[2];
    kani::assert(out.len() == has_p as usize + has_q as usize, "C19: the next-peer list has no duplicates and loses nobody");
    kani::assert(out.iter().any(|x| x == "p") == has_p && out.iter().any(|x| x == "q") == has_q, "C19: same set of peers");
    kani::cover!(has_p && has_q, "both peers present");
    std::mem::forget(out);
}
