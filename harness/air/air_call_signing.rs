//@ module: air_call_signing
//@ crate: aquavm-air
//@ attach: air/src/execution_step/instructions/call/prev_result_handler.rs
//@ functions: handle_service_error; try_to_service_result; CallServiceFailed::new / to_value; serde_json::from_str (on the concrete result text); TraceHandler::meet_call_end
//@ stubs: serde_json::from_str -> Err (models 'the host result is not valid JSON'; the reader is out of reach); CallServiceFailed::to_value -> null (the error object is only passed to the stubbed track_service_result); ExecutionCidState::track_service_result -> returns the literal CID "c1" (CID computation is BLAKE3, out of reach); ExecutionCtx::record_call_cid -> records the (peer, CID) it was called with (the REQUIRED step); std::hash::RandomState::new -> fixed keys; alloc::fmt::format -> empty String
//@ assumes: PARTIAL ExecutionCtx with no initialised field (the two context functions used are stubbed); the host result is an error code != 0 with a text, or success (0) with a text that is not JSON
//@ decides: C03: whenever a failed service result is recorded in the trace (service error, or a result that is not valid JSON) its content id is registered with the current peer's CID tracker under the call's peer id, so the peer's signature covers everything it recorded (finding F15: the non-JSON path did not)
//@ outside: the success path (needs real CIDs of values), signing itself (Ed25519), verification on the receiving peer
//@ harness: name=c03_service_error_is_registered_for_signing props=C03 cap=1200 cost=200 sym="ret_code: any non-zero i32" bound="one call"
//@ harness: name=c03_failed_results_are_registered_for_signing trivial=1 props=C03 cap=1800 cost=300 sym="none besides the stubbed reader verdict: success code with a result text that is not JSON" bound="one call (try_to_service_result)"

use super::*;
use air_interpreter_cid::CID;
use air_interpreter_data::ExecutedState;
use air_interpreter_data::ServiceResultCidAggregate;
use std::mem::MaybeUninit;

fn fmt_stub(_: std::fmt::Arguments<'_>) -> String {
    String::new()
}

fn random_state_stub() -> std::hash::RandomState {
    unsafe { std::mem::transmute::<(u64, u64), std::hash::RandomState>((0, 0)) }
}

static mut REGISTERED: u8 = 0;
static mut REGISTERED_OK: bool = false;

fn track_stub(
    _s: &mut crate::execution_step::execution_context::ExecutionCidState,
    value: JValue,
    tetraplet: RcSecurityTetraplet,
    argument_hash: Rc<str>,
) -> Result<CID<ServiceResultCidAggregate>, UncatchableError> {
    std::mem::forget((value, tetraplet, argument_hash));
    Ok(CID::new("c1"))
}

fn to_value_stub(_f: &air_interpreter_data::CallServiceFailed) -> JValue {
    // the error object only feeds track_service_result, which is stubbed (B-tree construction is slow under CBMC)
    JValue::Null
}

fn from_str_stub<'a, T: serde::Deserialize<'a>>(_s: &'a str) -> serde_json::Result<T> {
    // the host result "is not JSON": the serde_json reader itself is out of reach for CBMC
    serde_json::from_slice::<T>(b"")
}

fn record_stub<'i: 'i>(_ctx: &mut ExecutionCtx<'i>, peer_id: &str, cid: &CID<ServiceResultCidAggregate>) {
    unsafe {
        REGISTERED += 1;
        REGISTERED_OK = peer_id == "me" && &*cid.get_inner() == "c1";
    }
}

#[kani::proof]
#[kani::unwind(12)]
#[kani::stub(crate::execution_step::execution_context::cid_state::ExecutionCidState::track_service_result, track_stub)]
#[kani::stub(crate::execution_step::execution_context::context::ExecutionCtx::record_call_cid, record_stub)]
#[kani::stub(serde_json::from_str, from_str_stub)]
#[kani::stub(air_interpreter_data::CallServiceFailed::to_value, to_value_stub)]
#[kani::stub(std::hash::RandomState::new, random_state_stub)]
#[kani::stub(alloc::fmt::format, fmt_stub)]
fn c03_failed_results_are_registered_for_signing() {
    let mut u = MaybeUninit::<ExecutionCtx<'static>>::uninit();
    let ctx = unsafe { &mut *u.as_mut_ptr() };
    let mut trace = TraceHandler::default();
    let tetraplet: RcSecurityTetraplet = Rc::new(crate::SecurityTetraplet {
        peer_pk: String::from("me"),
        service_id: String::from("s"),
        function_name: String::from("f"),
        lens: String::new(),
    });
    let hash: Rc<str> = "h".into();
    // the host reported success (code 0) but its result text is not JSON (the reader is stubbed to say so)
    let result = CallServiceResult { ret_code: 0, result: String::from("]") };
    let r = try_to_service_result(result, &hash, &tetraplet, ctx, &mut trace);
    kani::assert(r.is_err(), "C18: a non-JSON result is a (catchable) failure");
    let emitted = trace.as_result_trace();
    kani::assert(
        emitted.len() == 1 && matches!(emitted.get(0.into()), Some(ExecutedState::Call(CallResult::Failed(c))) if &*c.get_inner() == "c1"),
        "C05: the failure is recorded with its content id"
    );
    kani::assert(unsafe { REGISTERED == 1 && REGISTERED_OK }, "C03: the recorded failure's CID is registered for signing under the call's peer");
    kani::cover!(true, "end reached");
    std::mem::forget((r, tetraplet, hash, trace));
    std::mem::forget(u);
}

#[kani::proof]
#[kani::unwind(12)]
#[kani::stub(crate::execution_step::execution_context::cid_state::ExecutionCidState::track_service_result, track_stub)]
#[kani::stub(crate::execution_step::execution_context::context::ExecutionCtx::record_call_cid, record_stub)]
#[kani::stub(air_interpreter_data::CallServiceFailed::to_value, to_value_stub)]
#[kani::stub(std::hash::RandomState::new, random_state_stub)]
#[kani::stub(alloc::fmt::format, fmt_stub)]
fn c03_service_error_is_registered_for_signing() {
    let mut u = MaybeUninit::<ExecutionCtx<'static>>::uninit();
    let ctx = unsafe { &mut *u.as_mut_ptr() };
    let mut trace = TraceHandler::default();
    let tetraplet: RcSecurityTetraplet = Rc::new(crate::SecurityTetraplet {
        peer_pk: String::from("me"),
        service_id: String::from("s"),
        function_name: String::from("f"),
        lens: String::new(),
    });
    let hash: Rc<str> = "h".into();
    let ret_code: i32 = kani::any();
    kani::assume(ret_code != 0);
    let result = CallServiceResult { ret_code, result: String::from("e") };
    let r = handle_service_error(result, hash.clone(), tetraplet.clone(), ctx, &mut trace);
    kani::assert(r.is_err(), "C18: a service error is a (catchable) failure");
    let emitted = trace.as_result_trace();
    kani::assert(
        emitted.len() == 1 && matches!(emitted.get(0.into()), Some(ExecutedState::Call(CallResult::Failed(c))) if &*c.get_inner() == "c1"),
        "C05: the failure is recorded with its content id"
    );
    kani::assert(unsafe { REGISTERED == 1 && REGISTERED_OK }, "C03: the recorded failure's CID is registered for signing under the call's peer");
    kani::cover!(ret_code < 0, "negative code");
    std::mem::forget((r, tetraplet, hash, trace));
    std::mem::forget(u);
}
