//@ module: air_call_leaf
//@ crate: aquavm-air
//@ attach: air/src/execution_step/instructions/call/prev_result_handler.rs
//@ functions: handle_prev_state (RequestSentBy arms; Executed/Failed arms with an unresolved argument hash); StateDescriptor::{executed,not_ready,can_execute_now,cant_execute_now,maybe_set_prev_state,should_execute}; call_result_setter::handle_remote_call; ExecutionCtx::next_call_request_id; ExecutionCtx::make_subgraph_incomplete; TraceHandler::meet_call_end
//@ stubs: <u32 as ToString>::to_string -> assert(false) in the foreign-request harness (building the call-result key is the first step of the forbidden lookup); std::hash::RandomState::new -> fixed keys; alloc::fmt::format -> empty String; std::thread::current/park -> assume(false), Thread::unpark -> no-op; tracing span/dispatcher -> disabled
//@ assumes: PARTIAL ExecutionCtx (field projection): only next_peer_pks, call_results (empty map), run_parameters (current peer "me"), last_call_request_id and the completeness flag are initialised; every other field is unconstrained memory that the kernels under test never read (a read would surface as a failed check, not as a pass)
//@ assumes: peers from the palette {me, other}; call ids one decimal digit (to_string of a u32 is a division loop); output = none
//@ decides: C05/C07: a pending request of this peer with no result yet is re-emitted unchanged and NOT executed again; a request by another peer is executed only if the call is addressed to this peer, otherwise re-emitted unchanged with the subgraph marked incomplete
//@ decides: C19: handle_remote_call pushes exactly the target peer to the next-peer list, marks the subgraph incomplete and records RequestSentBy(current peer)
//@ decides: C06: call request ids are handed out strictly increasing by one, for every last id < u32::MAX
//@ decides: C01: a recorded Executed state for a call whose arguments are not resolvable yet is rejected with an error (no unwrap panic)
//@ outside: arms that need the CID stores (Executed / Failed with resolved arguments, result delivery), argument hashing, ResolvedCall::execute as a whole
//@ harness: name=c05_pending_request_decision_table props=C05,C07,C19 cap=1800 cost=200 sym="sender me/other; with/without call id (0..=9); call addressed to me/other" bound="palette above; empty call_results"
//@ harness: name=c19_handle_remote_call props=C19 cap=900 cost=30 sym="target peer chosen from {other, third}; next_peer_pks initially empty or holding one entry" bound="-"
//@ harness: name=c06_call_request_ids_increase props=C06 cap=300 cost=10 sym="last_call_request_id: any u32 < u32::MAX - 1" bound="two consecutive ids"
//@ harness: name=c01_executed_state_with_unresolved_args props=C01 panicfree=1 tier=thorough core=0 cap=3000 cost=60 sym="any stream generation; Executed(Scalar), Executed(Stream), Executed(Unused) in turn" bound="argument hash = None; context fully uninitialised"
//@ harness: name=c06_foreign_request_never_takes_local_result props=C06,C05 cap=1800 cost=300 sym="request of ANOTHER peer carrying any one-digit call id; call addressed to me / other" bound="the call-result lookup itself is the forbidden step"
//@ harness: name=c01_missing_argument_hash_is_an_error props=C01,C14 trivial=1 cap=300 cost=10 sym="none: the helper every stored-result arm of handle_prev_state goes through" bound="-"
//@ harness: name=c05_leaf_vacuity props=C05 expect=fail cap=1800 cost=200 sym="as decision table" bound="same"

use super::*;
use crate::execution_step::execution_context::RcRunParameters;
use air_interpreter_cid::CID;
use air_interpreter_data::ExecutedState;
use air_interpreter_data::ValueRef;
use air_trace_handler::merger::ValueSource;
use std::mem::MaybeUninit;
use std::ptr::addr_of_mut;

include!("_air_stubs.rs");

fn partial_ctx(me: &str, last_id: u32) -> MaybeUninit<ExecutionCtx<'static>> {
    let mut u = MaybeUninit::<ExecutionCtx<'static>>::uninit();
    let p = u.as_mut_ptr();
    unsafe {
        addr_of_mut!((*p).next_peer_pks).write(Vec::new());
        addr_of_mut!((*p).call_results).write(<_>::default());
        addr_of_mut!((*p).run_parameters).write(RcRunParameters {
            init_peer_id: "i".into(),
            current_peer_id: Rc::new(String::from(me)),
            salt: "".into(),
            timestamp: 0,
            ttl: 0,
        });
        addr_of_mut!((*p).last_call_request_id).write(last_id);
        (*p).set_subgraph_completeness(true);
    }
    u
}

fn tetraplet_for(peer: &str) -> RcSecurityTetraplet {
    Rc::new(crate::SecurityTetraplet {
        peer_pk: String::from(peer),
        service_id: String::from("s"),
        function_name: String::from("f"),
        lens: String::new(),
    })
}

fn decision_body(twin: bool) {
    let mut u = partial_ctx("me", 0);
    let ctx = unsafe { &mut *u.as_mut_ptr() };
    let mut trace = TraceHandler::default();
    let sender_me: bool = kani::any();
    let with_id: bool = kani::any();
    let id: u32 = kani::any();
    kani::assume(id <= 9);
    let target_me: bool = kani::any();
    let sender = Rc::new(String::from(if sender_me { "me" } else { "other" }));
    let state = if with_id {
        CallResult::sent_peer_id_with_call_id(sender, id)
    } else {
        CallResult::sent_peer_id(sender)
    };
    let expected_back = state.clone();
    let met = MetCallResult::new(state, 0.into(), ValueSource::PreviousData);
    let tetraplet = tetraplet_for(if target_me { "me" } else { "other" });
    let hash: Rc<str> = "h".into();
    let r = handle_prev_state(met, &tetraplet, Some(&hash), &CallOutputValue::None, ctx, &mut trace);
    match &r {
        Ok(d) => {
            let own_pending = sender_me && with_id;
            kani::assert(d.should_execute == (!own_pending && target_me), "C05: executed iff it is not this peer's own pending request and the call is addressed to this peer");
            kani::assert(d.prev_state.as_ref() == Some(&expected_back), "C05/C07: the stored request is handed back unchanged for re-emission");
            kani::assert(ctx.is_subgraph_complete() == d.should_execute, "C19/C16: the subgraph is incomplete whenever the call is not executed here");
            kani::assert(ctx.next_peer_pks.is_empty(), "C19: a pending request does not forward the particle again");
            kani::assert(trace.as_result_trace().len() == 0, "C05: nothing emitted yet by the decision itself");
        }
        Err(_) => kani::assert(false, "C05: request states are never rejected"),
    }
    kani::cover!(matches!(&r, Ok(d) if d.should_execute), "call to be executed now");
    kani::cover!(matches!(&r, Ok(d) if !d.should_execute) && sender_me && with_id, "own pending request waits");
    if twin {
        kani::assert(false, "vacuity twin");
    }
    std::mem::forget((r, tetraplet, hash, expected_back, trace));
    std::mem::forget(u);
}

#[kani::proof]
#[kani::unwind(12)]
#[kani::stub(std::hash::RandomState::new, random_state_stub)]
#[kani::stub(alloc::fmt::format, fmt_stub)]
#[kani::stub(std::thread::current::current, thread_current_stub)]
#[kani::stub(std::thread::park, thread_park_stub)]
#[kani::stub(std::thread::Thread::unpark, thread_unpark_stub)]
fn c05_pending_request_decision_table() {
    decision_body(false);
}

#[kani::proof]
#[kani::unwind(12)]
#[kani::stub(std::hash::RandomState::new, random_state_stub)]
#[kani::stub(alloc::fmt::format, fmt_stub)]
#[kani::stub(std::thread::current::current, thread_current_stub)]
#[kani::stub(std::thread::park, thread_park_stub)]
#[kani::stub(std::thread::Thread::unpark, thread_unpark_stub)]
fn c05_leaf_vacuity() {
    decision_body(true);
}

/// A host result stored under a call id belongs to the call THIS peer requested under that id.  A request
/// state written by another peer (ids are per peer, so they collide) must never even look at this peer's
/// call results: the lookup is the forbidden step (stubbed to a failing check; a real hashbrown lookup on a
/// filled map does not finish under CBMC).
/// with unresolved arguments nothing of a stored result may be looked up or bound
fn populate_stub<'i>(
    value: ValueRef,
    _argument_hash: &str,
    tetraplet: RcSecurityTetraplet,
    _trace_pos: air_interpreter_data::TracePos,
    _value_source: ValueSource,
    _output: &CallOutputValue<'i>,
    _exec_ctx: &mut ExecutionCtx<'i>,
) -> ExecutionResult<()> {
    kani::assert(false, "C01/C14: a stored result must not be applied to a call whose arguments are unresolved");
    std::mem::forget((value, tetraplet));
    kani::assume(false);
    Ok(())
}

fn call_id_to_string_stub<T: std::fmt::Display + ?Sized>(_id: &T) -> String {
    // the only u32 -> String conversion in handle_prev_state is the call-result key of the own-request arm
    kani::assert(false, "C06: a request recorded by another peer must not consume (or look up) a result of this peer's host");
    kani::assume(false);
    String::new()
}

#[kani::proof]
#[kani::unwind(12)]
#[kani::stub(<u32 as std::string::ToString>::to_string, call_id_to_string_stub)]
#[kani::stub(std::hash::RandomState::new, random_state_stub)]
#[kani::stub(alloc::fmt::format, fmt_stub)]
#[kani::stub(std::thread::current::current, thread_current_stub)]
#[kani::stub(std::thread::park, thread_park_stub)]
#[kani::stub(std::thread::Thread::unpark, thread_unpark_stub)]
fn c06_foreign_request_never_takes_local_result() {
    let mut u = partial_ctx("me", 7);
    let ctx = unsafe { &mut *u.as_mut_ptr() };
    let mut trace = TraceHandler::default();
    let target_me: bool = kani::any();
    let id: u32 = kani::any();
    kani::assume(id <= 9);
    let state = CallResult::sent_peer_id_with_call_id(Rc::new(String::from("other")), id);
    let met = MetCallResult::new(state, 0.into(), ValueSource::CurrentData);
    let tetraplet = tetraplet_for(if target_me { "me" } else { "other" });
    let hash: Rc<str> = "h".into();
    let r = handle_prev_state(met, &tetraplet, Some(&hash), &CallOutputValue::None, ctx, &mut trace);
    kani::assert(matches!(&r, Ok(d) if d.should_execute == target_me && d.prev_state.is_some()), "C05: a foreign request is only (re)executed where addressed");
    kani::assert(trace.as_result_trace().len() == 0, "C05: no result recorded at a foreign request");
    kani::cover!(target_me, "addressed to me");
    kani::cover!(!target_me, "addressed elsewhere");
    std::mem::forget((r, tetraplet, hash, trace));
    std::mem::forget(u);
}

#[kani::proof]
#[kani::unwind(6)]
#[kani::stub(std::hash::RandomState::new, random_state_stub)]
#[kani::stub(alloc::fmt::format, fmt_stub)]
#[kani::stub(std::thread::current::current, thread_current_stub)]
#[kani::stub(std::thread::park, thread_park_stub)]
#[kani::stub(std::thread::Thread::unpark, thread_unpark_stub)]
fn c19_handle_remote_call() {
    let mut u = partial_ctx("me", 0);
    let ctx = unsafe { &mut *u.as_mut_ptr() };
    let mut trace = TraceHandler::default();
    let had_one: bool = kani::any();
    if had_one {
        ctx.next_peer_pks.push(String::from("zero"));
    }
    let pick: bool = kani::any();
    let target = if pick { "other" } else { "third" };
    call_result_setter::handle_remote_call(String::from(target), ctx, &mut trace);
    let n = ctx.next_peer_pks.len();
    kani::assert(n == had_one as usize + 1, "C19: exactly one next peer added");
    kani::assert(ctx.next_peer_pks[n - 1] == target, "C19: the next peer is the call's target");
    kani::assert(!ctx.is_subgraph_complete(), "C19: subgraph incomplete after a remote call");
    let emitted = trace.as_result_trace();
    kani::assert(emitted.len() == 1, "C19: one state emitted");
    kani::assert(
        matches!(emitted.get(0.into()), Some(ExecutedState::Call(CallResult::RequestSentBy(Sender::PeerId(p)))) if p.as_str() == "me"),
        "C19: the call is recorded as sent by the current peer"
    );
    kani::cover!(had_one && !pick, "second next peer");
    std::mem::forget(trace);
    std::mem::forget(u);
}

#[kani::proof]
#[kani::unwind(2)]
fn c06_call_request_ids_increase() {
    let last: u32 = kani::any();
    kani::assume(last < u32::MAX - 1);
    let mut u = MaybeUninit::<ExecutionCtx<'static>>::uninit();
    unsafe { addr_of_mut!((*u.as_mut_ptr()).last_call_request_id).write(last) };
    let ctx = unsafe { &mut *u.as_mut_ptr() };
    let a = ctx.next_call_request_id();
    let b = ctx.next_call_request_id();
    kani::assert(a == last + 1 && a > last, "C06: a fresh id is larger than every id handed out before");
    kani::assert(b == a + 1 && b > a, "C06: ids never repeat");
    kani::assert(ctx.last_call_request_id == b, "C06: the last id is remembered for the data");
    kani::cover!(last == u32::MAX - 2, "near the top of the range");
    std::mem::forget(u);
}

#[kani::proof]
#[kani::unwind(6)]
#[kani::stub(crate::execution_step::instructions::call::call_result_setter::populate_context_from_data, populate_stub)]
#[kani::stub(std::hash::RandomState::new, random_state_stub)]
#[kani::stub(alloc::fmt::format, fmt_stub)]
#[kani::stub(std::thread::current::current, thread_current_stub)]
#[kani::stub(std::thread::park, thread_park_stub)]
#[kani::stub(std::thread::Thread::unpark, thread_unpark_stub)]
fn c01_executed_state_with_unresolved_args() {
    // nothing of the context may be touched before the missing argument hash is reported: fully uninitialised
    let mut u = MaybeUninit::<ExecutionCtx<'static>>::uninit();
    let ctx = unsafe { &mut *u.as_mut_ptr() };
    let mut trace = TraceHandler::default();
    let tetraplet = tetraplet_for("other");
    let g: u32 = kani::any();
    let mut kind = 0u8;
    let mut r = Ok(StateDescriptor::executed());
    while kind < 3 {
        let value = match kind {
            0 => ValueRef::Scalar(CID::new("a")),
            1 => ValueRef::Stream {
                cid: CID::new("a"),
                generation: (g as usize).into(),
            },
            _ => ValueRef::Unused(CID::new("a")),
        };
        let met = MetCallResult::new(CallResult::Executed(value), 0.into(), ValueSource::CurrentData);
        std::mem::forget(r);
        r = handle_prev_state(met, &tetraplet, None, &CallOutputValue::None, ctx, &mut trace);
        kani::assert(r.is_err(), "C01: a result for a call with unresolved arguments is rejected, not unwrapped");
        kind += 1;
    }
    kani::assert(trace.as_result_trace().len() == 0, "C14: nothing accepted into the trace");
    kani::cover!(g > 0, "non-zero generation");
    std::mem::forget((r, tetraplet, trace));
    std::mem::forget(u);
}

#[kani::proof]
#[kani::unwind(4)]
#[kani::stub(alloc::fmt::format, fmt_stub)]
fn c01_missing_argument_hash_is_an_error() {
    let r = require_argument_hash(None);
    kani::assert(matches!(&r, Err(UncatchableError::InstructionParametersMismatch { .. })), "C01: an absent argument hash is reported as an error, never unwrapped");
    let h: Rc<str> = "h".into();
    let r2 = require_argument_hash(Some(&h));
    kani::assert(matches!(&r2, Ok(x) if Rc::ptr_eq(x, &h)), "C14: a present argument hash is passed through unchanged");
    kani::cover!(true, "end reached");
    std::mem::forget(r2);
    std::mem::forget(r);
    std::mem::forget(h);
}
