//@ module: air_stream
//@ crate: aquavm-air
//@ attach: air/src/execution_step/value_types/stream/stream_definition.rs
//@ requires: air_values_matrix
//@ functions: Stream::add_value; Stream::iter; Stream::slice_iter; Stream::cursor; Stream::check_stream_size_limit; ValuesMatrix::add_value_to_generation; ValuesMatrix::iter; ValuesMatrix::slice_iter; ValuesMatrix::get_size; NewValuesMatrix::add_to_last_generation; Generation::from_data
//@ assumes: instantiation Stream<P> with P = { trace_pos: u32, tag: u8 } (the real generic code, a trivial payload instead of ValueAggregate)
//@ assumes: generation indices >= STREAM_MAX_SIZE are symbolic (any u32 up to u32::MAX); below the limit only 0, 1, 3 are exercised (the resize loop runs generation+1 times)
//@ stubs: ValuesMatrix::add_value_to_generation -> assert(false) in c01_stream_generation_bounded (forbidden step for generations beyond the limit); alloc::fmt::format -> empty String
//@ decides: C01: adding a value under any generation index from data neither panics nor allocates more than STREAM_MAX_SIZE generations (larger indices are rejected)
//@ decides: C12: iteration yields previous-data values, then current-data values, then new values; generation-major inside each source, insertion order inside a generation, whatever order the values were added in
//@ decides: C13: after n additions the stream holds exactly n values, each once; the size limit error appears exactly when the cumulative size reaches STREAM_MAX_SIZE
//@ outside: compactify / generation renumbering written back to the trace (needs TraceHandler with rich states); RecursiveStreamCursor over ValueAggregate iterables
//@ harness: name=c01_stream_generation_bounded playback=1 props=C01 panicfree=1 cap=900 cost=60 sym="generation: any u32 >= STREAM_MAX_SIZE; source previous/current: any" bound="one addition into an empty stream"
//@ harness: name=c01_stream_generation_small playback=1 trivial=1 props=C01,C13 cap=900 cost=60 sym="none: generations 0 and 2" bound="one addition"
//@ harness: name=c12_stream_iteration_order_natural playback=1 props=C12,C13 cap=1800 cost=200 mem=19 sym="tags of 5 values: any u8" bound="previous generations {0,2}, current {1}, one new value; insertion order: natural"
//@ harness: name=c12_stream_iteration_order_reversed playback=1 props=C12,C13 cap=1800 cost=200 mem=19 sym="tags of 5 values: any u8" bound="previous generations {0,2}, current {1}, one new value; insertion order: reversed"
//@ harness: name=c12_stream_iteration_order_scrambled playback=1 props=C12,C13 cap=1800 cost=200 mem=19 sym="tags of 5 values: any u8" bound="previous generations {0,2}, current {1}, one new value; insertion order: scrambled"
//@ harness: name=c13_cursor_dense_then_previous playback=1 props=C13,C09,C12 cap=1800 cost=200 sym="payload tags of 3 values: any u8" bound="dense matrices; later value to previous data"
//@ harness: name=c13_cursor_sparse_current_then_current playback=1 props=C13,C09,C12 cap=1800 cost=200 sym="payload tags of 3 values: any u8" bound="sparse current-data matrix (generation 2 only); later value to current data (the F10 shape)"
//@ harness: name=c13_cursor_sparse_previous_then_previous playback=1 props=C13,C09,C12 cap=1800 cost=200 sym="payload tags of 3 values: any u8" bound="sparse previous-data matrix; later value to previous data"
//@ harness: name=c13_cursor_sparse_both_then_new playback=1 props=C13,C09,C12 cap=1800 cost=200 sym="payload tags of 3 values: any u8" bound="both matrices sparse; later value is new"
//@ harness: name=c13_stream_size_limit_exact playback=1 props=C13 cap=900 cost=60 sym="sizes of the three sources: any usize with sum < 2^20" bound="sizes set directly in the matrices (no 1024 insertions)"
//@ harness: name=c13_generation_from_data playback=1 props=C13,C12 cap=300 cost=10 sym="generation: any u32; source: previous/current" bound="none"

use super::*;

fn fmt_stub(_: std::fmt::Arguments<'_>) -> String {
    String::new()
}

#[derive(Clone, Copy, PartialEq, Eq)]
struct P {
    trace_pos: u32,
    tag: u8,
}

impl fmt::Display for P {
    fn fmt(&self, _f: &mut fmt::Formatter<'_>) -> fmt::Result {
        Ok(())
    }
}

fn gen(g: u32) -> GenerationIdx {
    GenerationIdx::from(g as usize)
}

fn generation_body(g: u32, from_prev: bool) {
    let mut s = Stream::<P>::new();
    let generation = if from_prev { Generation::Previous(gen(g)) } else { Generation::Current(gen(g)) };
    let r = s.add_value(P { trace_pos: 1, tag: 1 }, generation);
    kani::assert(r.is_ok() == ((g as usize) < STREAM_MAX_SIZE), "C01: generations beyond the stream size limit are rejected, others accepted");
    let gens_prev: usize = s.previous_values.generations_count().into();
    let gens_cur: usize = s.current_values.generations_count().into();
    kani::assert(gens_prev <= STREAM_MAX_SIZE && gens_cur <= STREAM_MAX_SIZE, "C01: never more generations allocated than the stream may hold values");
    let stored = s.previous_values.get_size() + s.current_values.get_size();
    kani::assert(stored == r.is_ok() as usize, "C13: a rejected value is not stored, an accepted one is");
    std::mem::forget(r);
    std::mem::forget(s);
}

/// reaching the value matrix with a generation beyond the limit is the forbidden step (there the matrix would
/// be resized to generation + 1 slots: CBMC cannot execute an allocation of symbolic size, and the real run
/// would allocate gigabytes / overflow)
fn matrix_add_stub<T: Clone>(_m: &mut ValuesMatrix<T>, value: T, _g: GenerationIdx) {
    kani::assert(false, "C01: a generation index beyond the stream size limit must be rejected before the value matrix is touched");
    std::mem::forget(value);
}

/// large generation indices (everything from the stream size limit up to u32::MAX) are symbolic
#[kani::proof]
#[kani::unwind(4)]
#[kani::stub(crate::execution_step::value_types::stream::values_matrix::ValuesMatrix::add_value_to_generation, matrix_add_stub)]
#[kani::stub(alloc::fmt::format, fmt_stub)]
fn c01_stream_generation_bounded() {
    let g: u32 = kani::any();
    kani::assume(g as usize >= STREAM_MAX_SIZE);
    generation_body(g, kani::any());
    kani::cover!(g == u32::MAX, "u32::MAX rejected");
}

/// small generation indices are enumerated because ValuesMatrix::resize is a loop over the index
#[kani::proof]
#[kani::unwind(7)]
#[kani::stub(alloc::fmt::format, fmt_stub)]
fn c01_stream_generation_small() {
    generation_body(0, true);
    generation_body(2, false);
    kani::cover!(true, "end reached");
}

fn order_body(perm: [usize; 5]) {
    let tags: [u8; 5] = kani::any();
    let vals = [
        (P { trace_pos: 10, tag: tags[0] }, Generation::Previous(gen(0))),
        (P { trace_pos: 11, tag: tags[1] }, Generation::Previous(gen(2))),
        (P { trace_pos: 12, tag: tags[2] }, Generation::Current(gen(1))),
        (P { trace_pos: 13, tag: tags[3] }, Generation::New),
        (P { trace_pos: 14, tag: tags[4] }, Generation::Previous(gen(0))),
    ];
    let mut s = Stream::<P>::new();
    let mut i = 0;
    while i < 5 {
        let (v, g) = vals[perm[i]];
        let r = s.add_value(v, g);
        kani::assert(r.is_ok(), "C13: additions below the limit succeed");
        std::mem::forget(r);
        i += 1;
    }
    {
        let mut it = s.iter();
        let got = [it.next().copied(), it.next().copied(), it.next().copied(), it.next().copied(), it.next().copied()];
        kani::assert(it.next().is_none(), "C13: exactly the five added values, nothing duplicated");
        kani::assert(got[0] == Some(vals[0].0), "C12: previous generation 0, first inserted");
        kani::assert(got[1] == Some(vals[4].0), "C12: previous generation 0, second inserted");
        kani::assert(got[2] == Some(vals[1].0), "C12: previous generation 2 after previous generation 0");
        kani::assert(got[3] == Some(vals[2].0), "C12: current data after previous data");
        kani::assert(got[4] == Some(vals[3].0), "C12: new values last");
    }
    let c = s.cursor();
    kani::assert(s.slice_iter(c).next().is_none(), "C13: nothing after the cursor of the whole stream");
    kani::assert(s.slice_iter(StreamCursor::empty()).count() == 4, "C12: four non-empty generations seen from the empty cursor");
    std::mem::forget(s);
}

macro_rules! order_shape {
    ($($name:ident => $perm:expr;)*) => {
        $(
            #[kani::proof]
            #[kani::unwind(8)]
            #[kani::stub(alloc::fmt::format, fmt_stub)]
            fn $name() {
                order_body($perm);
                kani::cover!(true, "end reached");
            }
        )*
    };
}

// value 4 goes to the same generation as value 0 and is always added after it; otherwise the values are
// added in different (concrete) orders, with symbolic tags: one order per harness
order_shape! {
    c12_stream_iteration_order_natural => [0, 1, 2, 3, 4];
    c12_stream_iteration_order_reversed => [3, 2, 1, 0, 4];
    c12_stream_iteration_order_scrambled => [2, 0, 4, 3, 1];
}

/// A cursor taken from a stream denotes "everything seen so far": nothing is after it, and every value
/// added later is handed out after it exactly once - also when the value matrices are sparse (the
/// current-data matrix is: generations whose values also exist in previous data stay empty).  This is the
/// recursive-stream fold's progress invariant (found violated on the pinned tree: finding F10).
fn cursor_body(gp: u32, gc: u32, which: u8) {
    let tags: [u8; 3] = kani::any();
    let mut s = Stream::<P>::new();
    let r1 = s.add_value(P { trace_pos: 1, tag: tags[0] }, Generation::Previous(gen(gp)));
    let r2 = s.add_value(P { trace_pos: 2, tag: tags[1] }, Generation::Current(gen(gc)));
    kani::assert(r1.is_ok() && r2.is_ok(), "C13: additions succeed");
    let cursor = s.cursor();
    kani::assert(s.slice_iter(cursor).next().is_none(), "C13: nothing is after a fresh cursor");
    // a later value: the next generation of previous / current data, or a new value
    let generation = match which {
        0 => Generation::Previous(gen(gp + 1)),
        1 => Generation::Current(gen(gc + 1)),
        _ => Generation::New,
    };
    let w = P { trace_pos: 3, tag: tags[2] };
    let r3 = s.add_value(w, generation);
    kani::assert(r3.is_ok(), "C13: addition succeeds");
    {
        let mut later = s.slice_iter(cursor);
        let first = later.next();
        kani::assert(matches!(first, Some(slice) if slice.len() == 1 && slice[0] == w), "C13/C09: a value added after the cursor was taken is handed out after it");
        kani::assert(later.next().is_none(), "C13: and nothing else");
    }
    let c2 = s.cursor();
    kani::assert(s.slice_iter(c2).next().is_none(), "C13: the next cursor is past it again");
    std::mem::forget((r1, r2, r3));
    std::mem::forget(s);
}

macro_rules! cursor_shape {
    ($($name:ident => $gp:expr, $gc:expr, $which:expr;)*) => {
        $(
            #[kani::proof]
            #[kani::unwind(7)]
            #[kani::stub(alloc::fmt::format, fmt_stub)]
            fn $name() {
                cursor_body($gp, $gc, $which);
                kani::cover!(true, "end reached");
            }
        )*
    };
}

// one shape per harness (generation of the previous- / current-data value: dense 0 or sparse 2; the later
// value goes to previous (0), current (1) or new (2)); payload tags are symbolic
cursor_shape! {
    c13_cursor_dense_then_previous => 0, 0, 0;
    c13_cursor_sparse_current_then_current => 0, 2, 1;
    c13_cursor_sparse_previous_then_previous => 2, 0, 0;
    c13_cursor_sparse_both_then_new => 2, 2, 2;
}

#[kani::proof]
#[kani::unwind(4)]
#[kani::stub(alloc::fmt::format, fmt_stub)]
fn c13_stream_size_limit_exact() {
    let mut s = Stream::<P>::new();
    let (a, b, c): (usize, usize, usize) = (kani::any(), kani::any(), kani::any());
    kani::assume(a < 1 << 20 && b < 1 << 20 && c < 1 << 20);
    use super::super::values_matrix::verif_kani_air_values_matrix::{set_new_size, set_size};
    set_size(&mut s.previous_values, a);
    set_size(&mut s.current_values, b);
    set_new_size(&mut s.new_values, c);
    let r = s.check_stream_size_limit();
    kani::assert(r.is_err() == (a + b + c >= STREAM_MAX_SIZE), "C13: the limit error appears exactly when the cumulative size reaches STREAM_MAX_SIZE");
    kani::cover!(a + b + c == STREAM_MAX_SIZE - 1, "one below the limit accepted");
    kani::cover!(a + b + c == STREAM_MAX_SIZE, "limit reached");
    std::mem::forget(r);
    std::mem::forget(s);
}

#[kani::proof]
#[kani::unwind(2)]
fn c13_generation_from_data() {
    let g: u32 = kani::any();
    kani::assert(Generation::from_data(ValueSource::PreviousData, gen(g)) == Generation::Previous(gen(g)), "C12/C13: previous-data values go to the previous matrix");
    kani::assert(Generation::from_data(ValueSource::CurrentData, gen(g)) == Generation::Current(gen(g)), "C12/C13: current-data values go to the current matrix");
    let met = MetApResult { generation: gen(g), value_source: ValueSource::CurrentData };
    kani::assert(Generation::from_met_result(&met) == Generation::Current(gen(g)), "C13: ap results keep their source and generation");
    kani::cover!(g > 0, "non-zero generation");
}
