//@ module: air_values_matrix
//@ crate: aquavm-air
//@ attach: air/src/execution_step/value_types/stream/values_matrix.rs
//@ functions: ValuesMatrix (field access helpers for air_stream harnesses; no harness of its own)

use super::*;

/// sets the value counter of a matrix directly, so that the STREAM_MAX_SIZE boundary can be checked
/// without performing 1024 insertions
pub(crate) fn set_size<T>(m: &mut ValuesMatrix<T>, n: usize) {
    m.size = n;
}

pub(crate) fn set_new_size<T>(m: &mut NewValuesMatrix<T>, n: usize) {
    m.0.size = n;
}
