//@ module: data_cid_helpers
//@ crate: air-interpreter-data
//@ attach: crates/air-lib/interpreter-data/src/cid_store.rs
//@ visibility: pub
//@ functions: CidTracker (helper: inserts an entry under a chosen CID without hashing; BLAKE3 reaches cpuid inline asm that Kani does not support)

use super::*;

/// Stores `value` under the literal CID text `cid`.  Harness-side replacement for track_value, whose CID
/// computation (BLAKE3) cannot be executed under Kani; distinct literals keep "different value, different CID".
pub fn insert_with_cid<Val>(tracker: &mut CidTracker<Val>, cid: &str, value: Val) -> CID<Val> {
    let cid: CID<Val> = CID::new(cid);
    tracker.cids.insert(cid.clone(), Rc::new(value));
    cid
}
