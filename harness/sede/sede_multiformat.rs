//@ module: sede_multiformat
//@ crate: air-interpreter-sede
//@ attach: crates/air-lib/interpreter-sede/src/multiformat.rs
//@ functions: write_multiformat; decode_multiformat; parse_multiformat_bytes; unsigned_varint::encode::u32; unsigned_varint::decode::u32
//@ assumes: instantiation Value = [u8; 2] payload with a harness-side identity Format (the real formats are msgpack/rkyv/serde_json whose decoders are out of reach); the output sink is a fixed 8-byte array implementing std::io::Write (a Vec sink with symbolic-length write_all runs CBMC out of memory)
//@ decides: C27: decode(encode(v, c), c) == v for every codec c (any u32) and payload; decoding with any other expected codec fails with the codec found in the data; parsing never panics on any input of <= 6 bytes and never reads past the prefix it reports
//@ outside: rkyv / msgpack round trips of InterpreterData, envelopes and request/result maps (table-driven decoders); encode_multiformat's Vec buffer (same code path as write_multiformat with a Vec sink)
//@ harness: name=c27_multiformat_roundtrip playback=1 props=C27 cap=600 cost=30 sym="codec: any u32; expected codec: any u32; payload: any 2 bytes" bound="payload 2 bytes; varint <= 5 bytes; unwind 9"
//@ harness: name=c27_multiformat_parse_total playback=1 props=C27,C01 panicfree=1 cap=600 cost=20 sym="any input bytes, any length 0..=6" bound="<= 6 bytes; unwind 9"
//@ harness: name=c27_multiformat_vacuity playback=1 props=C27 expect=fail cap=600 cost=30 sym="as roundtrip" bound="same"

use super::*;

struct Sink {
    buf: [u8; 8],
    len: usize,
}

impl std::io::Write for Sink {
    fn write(&mut self, data: &[u8]) -> std::io::Result<usize> {
        let mut i = 0;
        while i < data.len() && self.len < 8 {
            self.buf[self.len] = data[i];
            self.len += 1;
            i += 1;
        }
        Ok(i)
    }
    fn flush(&mut self) -> std::io::Result<()> {
        Ok(())
    }
}

struct IdFormat;

#[derive(Debug)]
struct BadLen;

impl Format<[u8; 2]> for IdFormat {
    type SerializationError = BadLen;
    type DeserializationError = BadLen;
    type WriteError = std::io::Error;

    fn to_vec(&self, val: &[u8; 2]) -> Result<Vec<u8>, BadLen> {
        Ok(val.to_vec())
    }
    fn from_slice(&self, slice: &[u8]) -> Result<[u8; 2], BadLen> {
        // like the real decoders (rmp_serde ignores trailing bytes) the format is lenient about what follows
        if slice.len() >= 2 {
            Ok([slice[0], slice[1]])
        } else {
            Err(BadLen)
        }
    }
    fn to_writer<W: std::io::Write>(&self, value: &[u8; 2], write: &mut W) -> Result<(), std::io::Error> {
        write.write_all(value)
    }
}

fn roundtrip_body(twin: bool) {
    let codec: u32 = kani::any();
    let expected: u32 = kani::any();
    let payload: [u8; 2] = kani::any();
    let mut sink = Sink { buf: [0; 8], len: 0 };
    let w = write_multiformat(&payload, codec, &IdFormat, &mut sink);
    kani::assert(w.is_ok(), "C27: encoding into a large enough sink succeeds");
    kani::assert(sink.len >= 3 && sink.len <= 7, "C27: varint prefix of 1..=5 bytes + payload");
    let r = decode_multiformat::<[u8; 2], IdFormat>(&sink.buf[..sink.len], expected, &IdFormat);
    if expected == codec {
        kani::assert(matches!(&r, Ok(v) if *v == payload), "C27: decode(encode(v, c), c) == v");
    } else {
        kani::assert(matches!(&r, Err(DecodeError::Codec(c)) if *c == codec), "C27: another codec is rejected, reporting the codec found");
    }
    kani::cover!(codec >= 1 << 28 && r.is_ok(), "5-byte varint round trip");
    kani::cover!(codec < 128 && r.is_ok(), "1-byte varint round trip");
    kani::cover!(r.is_err(), "codec mismatch");
    if twin && r.is_ok() {
        kani::assert(false, "vacuity twin");
    }
    std::mem::forget(w);
    std::mem::forget(r);
}

#[kani::proof]
#[kani::unwind(9)]
fn c27_multiformat_roundtrip() {
    roundtrip_body(false);
}

#[kani::proof]
#[kani::unwind(9)]
fn c27_multiformat_vacuity() {
    roundtrip_body(true);
}

#[kani::proof]
#[kani::unwind(9)]
fn c27_multiformat_parse_total() {
    let bytes: [u8; 6] = kani::any();
    let n: usize = kani::any();
    kani::assume(n <= 6);
    let r = parse_multiformat_bytes(&bytes[..n]);
    if let Ok((codec, rest)) = &r {
        kani::assert(rest.len() < n, "C27: at least one prefix byte consumed, rest is a suffix of the input");
        let used = n - rest.len();
        kani::assert(used <= 5, "C27: a u32 varint has at most 5 bytes");
        // the tag that was read must be the tag that is there: re-encoding the codec gives back exactly the
        // consumed prefix, otherwise a payload tagged with ANOTHER codec (one that does not even fit u32)
        // would be read as this one
        let mut buf = varint_encode::u32_buffer();
        let enc = varint_encode::u32(*codec, &mut buf);
        let mut same = enc.len() == used;
        let mut i = 0;
        while i < used && i < enc.len() {
            if enc[i] != bytes[i] {
                same = false;
            }
            i += 1;
        }
        kani::assert(same, "C27: the codec read from a prefix is the codec that prefix encodes (no bits dropped)");
    }
    let d = decode_multiformat::<[u8; 2], IdFormat>(&bytes[..n], kani::any(), &IdFormat);
    kani::cover!(r.is_ok(), "parsed");
    kani::cover!(r.is_err(), "rejected (truncated / overlong varint)");
    std::mem::forget(r);
    std::mem::forget(d);
}
