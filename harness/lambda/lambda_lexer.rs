//@ module: lambda_lexer
//@ crate: air-lambda-parser
//@ attach: crates/air-lib/lambda/parser/src/parser/lexer/lambda_ast_lexer.rs
//@ functions: LambdaASTLexer::new; <LambdaASTLexer as Iterator>::next; tokenize_until; tokenize_field_name; tokenize_arrays_idx; try_parse_first_token
//@ assumes: the lens text is ".$." followed by 1..=3 arbitrary bytes that form valid UTF-8 (checked with core::str::from_utf8)
//@ decides: C01/C23: lexing a lens never panics for any such text, in particular for multi-byte alphanumeric characters (finding F12); every produced token span lies on char boundaries inside the input
//@ outside: longer lens texts, the lalrpop grammar on top of the lexer
//@ harness: name=c01_lambda_lexer_total playback=1 props=C01 panicfree=1 core=0 tier=thorough cap=2400 cost=600 sym="1..=3 arbitrary bytes (valid UTF-8) after the prefix .$." bound="<= 6 bytes of input; <= 5 tokens"

use super::*;

#[kani::proof]
#[kani::unwind(8)]
fn c01_lambda_lexer_total() {
    let tail: [u8; 3] = kani::any();
    let n: usize = kani::any();
    kani::assume(n >= 1 && n <= 3);
    let mut buf = [b'.', b'$', b'.', 0, 0, 0];
    buf[3] = tail[0];
    buf[4] = tail[1];
    buf[5] = tail[2];
    let text = match std::str::from_utf8(&buf[..3 + n]) {
        Ok(t) => t,
        Err(_) => return,
    };
    let mut lexer = LambdaASTLexer::new(text);
    let mut i = 0;
    while i < 5 {
        match lexer.next() {
            Some(Ok((l, _tok, r))) => {
                kani::assert(l <= r && r <= text.len(), "C23: token span inside the input");
                kani::assert(text.is_char_boundary(l) && text.is_char_boundary(r), "C01/C23: token spans lie on char boundaries");
            }
            Some(Err(e)) => std::mem::forget(e),
            None => break,
        }
        i += 1;
    }
    kani::cover!(n == 2 && tail[0] >= 0xC3, "a two-byte character after the prefix");
}
