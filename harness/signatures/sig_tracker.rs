//@ module: sig_tracker
//@ crate: air-interpreter-signatures
//@ attach: crates/air-lib/interpreter-signatures/src/trackers.rs
//@ functions: PeerCidTracker::new; PeerCidTracker::register
//@ assumes: 3 results registered in turn, each by peer me / other (symbolic) with a CID from {a, b} (symbolic)
//@ decides: C03: the tracker collects exactly the CIDs registered under the current peer's id, in registration order (the list the peer signs), and nothing registered under another peer's id
//@ outside: signing (Ed25519), sorting / salting of the CID list, verification
//@ harness: name=c03_tracker_collects_exactly_own_cids playback=1 props=C03 cap=900 cost=60 sym="for each of 3 registrations: peer me/other, CID a/b" bound="3 registrations; 1-byte strings"

use super::*;

#[kani::proof]
#[kani::unwind(5)]
fn c03_tracker_collects_exactly_own_cids() {
    let mut t = PeerCidTracker::new(String::from("me"));
    let mine: [bool; 3] = [kani::any(), kani::any(), kani::any()];
    let pick: [bool; 3] = [kani::any(), kani::any(), kani::any()];
    let mut i = 0;
    while i < 3 {
        let cid: CID<u8> = CID::new(if pick[i] { "a" } else { "b" });
        t.register(if mine[i] { "me" } else { "other" }, &cid);
        std::mem::forget(cid);
        i += 1;
    }
    let expected = mine[0] as usize + mine[1] as usize + mine[2] as usize;
    kani::assert(t.cids.len() == expected, "C03: exactly the results of the current peer are collected for signing");
    // order and content
    let mut k = 0;
    let mut j = 0;
    while j < 3 {
        if mine[j] {
            kani::assert(&*t.cids[k] == if pick[j] { "a" } else { "b" }, "C03: collected CIDs are the registered ones, in order");
            k += 1;
        }
        j += 1;
    }
    kani::cover!(expected == 2, "two own results");
    kani::cover!(expected == 0, "nothing of mine");
    std::mem::forget(t);
}
