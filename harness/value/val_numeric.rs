//@ module: val_numeric
//@ crate: air-interpreter-value
//@ attach: crates/air-lib/interpreter-value/src/value/partial_eq.rs
//@ functions: <JValue as Deserialize>::deserialize (ValueVisitor::visit_u64 / visit_i64 / visit_f64 / visit_bool / visit_unit); eq_i64; eq_u64; eq_f64; eq_f32; eq_bool; JValue::as_i64; JValue::as_u64; JValue::as_f64; From<i8..i64,u8..u64,f32,f64,bool> for JValue; From<&serde_json::Value> for JValue (scalar arms); <JValue as PartialEq>::eq (scalar arms)
//@ assumes: oracle is serde_json::Value built from the same Rust number (serde_json is the reference implementation of "standard JSON" here)
//@ decides: C26: for ALL i64/u64/f64 (and the narrower integer widths) the interpreter's JSON value converts from / compares with Rust numbers exactly as serde_json::Value does, including i64::MIN, u64::MAX, negative zero, NaN and infinities (which become null); conversion from serde_json::Value preserves scalars
//@ outside: printing and parsing of text (itoa/ryu/serde_json reader), strings, nested arrays/objects beyond the shapes in val_structure
//@ harness: name=c26_integers_agree_with_serde_json playback=1 props=C26 cap=600 cost=20 sym="n: any i64, m: any i64, u: any u64, v: any u64" bound="none (loop-free)"
//@ harness: name=c26_narrow_integers playback=1 props=C26 cap=600 cost=20 sym="any i8,i16,i32,u8,u16,u32" bound="none"
//@ harness: name=c26_f64_null_iff_not_finite playback=1 props=C26 cap=900 cost=60 sym="x: any f64 (all bit patterns)" bound="none"
//@ harness: name=c26_f64_equality playback=1 props=C26 cap=900 cost=60 sym="x, y: any f64" bound="none"
//@ harness: name=c26_f32_values playback=1 props=C26 cap=900 cost=60 sym="f: any f32" bound="none"
//@ harness: name=c26_integer_vs_float playback=1 props=C26 tier=thorough core=0 cap=1800 cost=300 sym="n: any i64; y: any f64" bound="none"
//@ harness: name=c26_scalars_from_serde_json playback=1 props=C26 cap=600 cost=30 sym="any i64, u64, bool" bound="none"
//@ harness: name=c26_deserialize_scalars playback=1 props=C26 cap=900 cost=60 sym="u: any u64; n: any i64; x: any f64; b: any bool (fed through serde's primitive deserializers into JValue's Deserialize impl)" bound="none"
//@ harness: name=c26_numeric_vacuity playback=1 props=C26 expect=fail cap=600 cost=20 sym="as integers" bound="none"

use super::*;
use serde_json::Value;

#[kani::proof]
#[kani::unwind(2)]
fn c26_integers_agree_with_serde_json() {
    let (n, m): (i64, i64) = (kani::any(), kani::any());
    let (u, v): (u64, u64) = (kani::any(), kani::any());
    let (jn, ju) = (JValue::from(n), JValue::from(u));
    let (sn, su) = (Value::from(n), Value::from(u));
    kani::assert((jn == m) == (sn == m), "C26: i64 value vs i64");
    kani::assert((jn == v) == (sn == v), "C26: i64 value vs u64");
    kani::assert((ju == m) == (su == m), "C26: u64 value vs i64");
    kani::assert((ju == v) == (su == v), "C26: u64 value vs u64");
    kani::assert(jn == n && ju == u, "C26: a converted integer equals itself");
    kani::assert(jn.as_i64() == sn.as_i64() && jn.as_u64() == sn.as_u64(), "C26: as_i64/as_u64 of an i64");
    kani::assert(ju.as_i64() == su.as_i64() && ju.as_u64() == su.as_u64(), "C26: as_i64/as_u64 of a u64");
    kani::assert((jn == ju) == (sn == su), "C26: value-to-value equality (i64 vs u64 representation)");
    kani::assert(jn.is_number() && !jn.is_null() && !jn.is_string(), "C26: kind");
    kani::cover!(n == i64::MIN, "i64::MIN");
    kani::cover!(u == u64::MAX, "u64::MAX");
    kani::cover!(jn == ju, "an i64 equal to a u64");
}

#[kani::proof]
#[kani::unwind(2)]
fn c26_numeric_vacuity() {
    let (n, u): (i64, u64) = (kani::any(), kani::any());
    let (jn, ju) = (JValue::from(n), JValue::from(u));
    if jn == ju {
        kani::assert(false, "vacuity twin");
    }
}

#[kani::proof]
#[kani::unwind(2)]
fn c26_narrow_integers() {
    let a: i8 = kani::any();
    let b: i16 = kani::any();
    let c: i32 = kani::any();
    let d: u8 = kani::any();
    let e: u16 = kani::any();
    let f: u32 = kani::any();
    kani::assert(JValue::from(a) == a && JValue::from(a) == a as i64 && JValue::from(a).as_i64() == Some(a as i64), "C26: i8");
    kani::assert(JValue::from(b) == b && JValue::from(b).as_i64() == Some(b as i64), "C26: i16");
    kani::assert(JValue::from(c) == c && JValue::from(c).as_i64() == Some(c as i64), "C26: i32");
    kani::assert(JValue::from(d) == d && JValue::from(d).as_u64() == Some(d as u64), "C26: u8");
    kani::assert(JValue::from(e) == e && JValue::from(e).as_u64() == Some(e as u64), "C26: u16");
    kani::assert(JValue::from(f) == f && JValue::from(f).as_u64() == Some(f as u64), "C26: u32");
    kani::assert((JValue::from(a) == d) == (Value::from(a) == d), "C26: i8 vs u8 as serde_json");
    kani::assert((JValue::from(f) == c) == (Value::from(f) == c), "C26: u32 vs i32 as serde_json");
    kani::cover!(a < 0, "negative");
}

#[kani::proof]
#[kani::unwind(2)]
fn c26_f64_null_iff_not_finite() {
    let x: f64 = kani::any();
    let jx = JValue::from(x);
    let sx = Value::from(x);
    kani::assert(jx.is_null() == !x.is_finite(), "C26: NaN and infinities become null, everything else a number");
    kani::assert(jx.is_null() == sx.is_null(), "C26: same as serde_json");
    kani::assert(jx.as_i64() == sx.as_i64() && jx.as_u64() == sx.as_u64(), "C26: a float is never an integer");
    kani::assert(jx.as_i64().is_none() && jx.as_u64().is_none(), "C26: a float is never an integer");
    kani::cover!(x == 0.0 && x.is_sign_negative(), "negative zero");
    kani::cover!(x.is_nan(), "NaN");
    kani::cover!(x.is_infinite(), "infinity");
    std::mem::forget((jx, sx));
}

#[kani::proof]
#[kani::unwind(2)]
fn c26_f64_equality() {
    let (x, y): (f64, f64) = (kani::any(), kani::any());
    let jx = JValue::from(x);
    let sx = Value::from(x);
    kani::assert((jx == y) == (sx == y), "C26: f64 value vs f64 as serde_json");
    kani::assert((jx == y) == (x.is_finite() && x == y), "C26: IEEE equality on finite values, null equals no number");
    kani::assert(jx.as_f64() == sx.as_f64(), "C26: as_f64");
    kani::cover!(jx == y && x == 0.0 && y.is_sign_negative() != x.is_sign_negative(), "0.0 == -0.0");
    kani::cover!(jx == y && x != 0.0, "equal non-zero floats");
    std::mem::forget((jx, sx));
}

#[kani::proof]
#[kani::unwind(2)]
fn c26_f32_values() {
    let f: f32 = kani::any();
    let jf = JValue::from(f);
    kani::assert(jf.is_null() == !f.is_finite(), "C26: f32 NaN/inf become null");
    if f.is_finite() {
        kani::assert(jf == f && jf == f as f64, "C26: a finite f32 equals itself and its f64 widening");
        kani::assert(jf.as_f64() == Some(f as f64), "C26: widening is exact");
    }
    kani::cover!(f.is_finite() && f != 0.0, "finite");
    std::mem::forget(jf);
}

#[kani::proof]
#[kani::unwind(2)]
fn c26_integer_vs_float() {
    let n: i64 = kani::any();
    let y: f64 = kani::any();
    kani::assert((JValue::from(n) == y) == (Value::from(n) == y), "C26: integer value vs f64 as serde_json");
    kani::cover!(JValue::from(n) == y, "integer equal to a float");
}

#[kani::proof]
#[kani::unwind(2)]
fn c26_scalars_from_serde_json() {
    let (n, u, b): (i64, u64, bool) = (kani::any(), kani::any(), kani::any());
    kani::assert(JValue::from(&Value::from(n)) == JValue::from(n), "C26: i64 through serde_json::Value");
    kani::assert(JValue::from(&Value::from(u)) == JValue::from(u), "C26: u64 through serde_json::Value");
    kani::assert(JValue::from(&Value::from(b)) == JValue::from(b) && JValue::from(b) == b, "C26: bool");
    kani::assert(JValue::from(&Value::Null) == JValue::Null && JValue::from(()) == JValue::Null, "C26: null");
    kani::assert(JValue::from(b).as_bool() == Some(b) && JValue::from(n).as_bool().is_none(), "C26: as_bool");
    kani::cover!(n < 0, "negative");
}

/// The parsing side: whatever integer / float / bool a JSON reader hands to JValue's Deserialize impl
/// becomes the same value as direct conversion (and as serde_json::Value's own Deserialize impl builds).
#[kani::proof]
#[kani::unwind(2)]
fn c26_deserialize_scalars() {
    use serde::de::value::{BoolDeserializer, Error, F64Deserializer, I64Deserializer, U64Deserializer, UnitDeserializer};
    use serde::de::IntoDeserializer;
    use serde::Deserialize;
    let (u, n, x, b): (u64, i64, f64, bool) = (kani::any(), kani::any(), kani::any(), kani::any());
    let du: U64Deserializer<Error> = u.into_deserializer();
    let ru = JValue::deserialize(du);
    kani::assert(matches!(&ru, Ok(v) if *v == JValue::from(u) && v.as_u64() == Some(u)), "C26: a parsed u64 is that u64 (also above i64::MAX)");
    let dn: I64Deserializer<Error> = n.into_deserializer();
    let rn = JValue::deserialize(dn);
    kani::assert(matches!(&rn, Ok(v) if *v == JValue::from(n) && v.as_i64() == Some(n)), "C26: a parsed i64 is that i64");
    let dx: F64Deserializer<Error> = x.into_deserializer();
    let rx = JValue::deserialize(dx);
    kani::assert(matches!(&rx, Ok(v) if v.is_null() == !x.is_finite() && v.as_f64() == Value::from(x).as_f64()), "C26: a parsed f64 as serde_json");
    let db: BoolDeserializer<Error> = b.into_deserializer();
    let rb = JValue::deserialize(db);
    kani::assert(matches!(&rb, Ok(v) if *v == JValue::Bool(b)), "C26: a parsed bool");
    let dunit: UnitDeserializer<Error> = ().into_deserializer();
    let rnull = JValue::deserialize(dunit);
    kani::assert(matches!(&rnull, Ok(JValue::Null)), "C26: null");
    // same as serde_json::Value's own impl
    let su = Value::deserialize({
        let d: U64Deserializer<Error> = u.into_deserializer();
        d
    });
    kani::assert(matches!((&ru, &su), (Ok(j), Ok(s)) if j.as_u64() == s.as_u64() && j.as_i64() == s.as_i64()), "C26: agrees with serde_json::Value on parsed u64");
    kani::cover!(u > i64::MAX as u64, "u64 above i64::MAX");
    std::mem::forget((ru, rn, rx, rb, rnull, su));
}
