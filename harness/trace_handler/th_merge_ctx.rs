//@ module: th_merge_ctx
//@ crate: air-trace-handler
//@ attach: crates/air-lib/trace-handler/src/data_keeper/merge_ctx.rs
//@ functions: MergeCtx::try_get_generation; TraceSlider::state_at_position; ExecutionTrace::get
//@ stubs: <ExecutedState as Clone>::clone -> Par(0,0) (only reached when building the NoStreamState error payload, which is not inspected); alloc::fmt::format -> empty String
//@ assumes: trace of 5 concrete entries: Ap with 0, 1 and 2 generations, a stream call result, a par; the looked-up position is any u32
//@ decides: C01: looking up the generation a fold lore points to never panics for any position and any Ap shape (in particular an Ap without generations); it returns the first generation of an Ap / the generation of a stream call result and an error for everything else
//@ harness: name=c01_try_get_generation_total playback=1 props=C01 panicfree=1 cap=900 cost=60 sym="position: any u32; generations stored in the states: any u32" bound="5-entry trace of fixed shapes"

use super::*;
use air_interpreter_data::*;

fn fmt_stub(_: std::fmt::Arguments<'_>) -> String {
    String::new()
}
fn clone_stub(_s: &ExecutedState) -> ExecutedState {
    ExecutedState::par(0, 0)
}

#[kani::proof]
#[kani::unwind(7)]
#[kani::stub(<air_interpreter_data::ExecutedState as std::clone::Clone>::clone, clone_stub)]
#[kani::stub(alloc::fmt::format, fmt_stub)]
fn c01_try_get_generation_total() {
    let (g1, g2, g3, g4): (u32, u32, u32, u32) = (kani::any(), kani::any(), kani::any(), kani::any());
    let gen = |g: u32| GenerationIdx::from(g as usize);
    let trace = vec![
        ExecutedState::Ap(ApResult { res_generations: vec![] }),
        ExecutedState::Ap(ApResult { res_generations: vec![gen(g1)] }),
        ExecutedState::Ap(ApResult { res_generations: vec![gen(g2), gen(g3)] }),
        ExecutedState::Call(CallResult::Executed(ValueRef::Stream {
            cid: air_interpreter_cid::CID::new("a"),
            generation: gen(g4),
        })),
        ExecutedState::par(1, 1),
    ];
    let ctx = MergeCtx::from_trace(trace.into());
    let pos: u32 = kani::any();
    let r = ctx.try_get_generation(pos.into());
    match pos {
        1 => kani::assert(matches!(&r, Ok(g) if *g == gen(g1)), "C01/C13: single generation of an Ap"),
        2 => kani::assert(matches!(&r, Ok(g) if *g == gen(g2)), "C01/C13: first generation of an Ap"),
        3 => kani::assert(matches!(&r, Ok(g) if *g == gen(g4)), "C01/C13: generation of a stream call result"),
        _ => kani::assert(r.is_err(), "C01: an Ap without generations, a par and positions beyond the trace are errors"),
    }
    kani::cover!(pos == 0 && r.is_err(), "Ap without generations rejected");
    kani::cover!(pos > 4, "beyond the trace");
    std::mem::forget(r);
    std::mem::forget(ctx);
}
