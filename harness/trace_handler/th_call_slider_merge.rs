//@ module: th_call_slider_merge
//@ crate: air-trace-handler
//@ attach: crates/air-lib/trace-handler/src/merger/call_merger.rs
//@ functions: try_merge_next_state_as_call; prepare_call_result; position_mapping::prepare_positions_mapping; From<PreparationScheme> for ValueSource; TraceSlider::next_state
//@ stubs: bimap::BiHashMap::insert -> records (which map, left, right) in a harness log instead of inserting (hashbrown inserts did not finish in 30 min; the code under test is WHICH positions are recorded in WHICH map); <ExecutedState as Clone>::clone -> exact clone for Par and Call states, asserts that no other variant is cloned (traces here hold only calls); std::hash::RandomState::new -> fixed keys; alloc::fmt::format -> empty String
//@ assumes: previous and current trace hold at most one call state each (presence symbolic through the slider interval); three representative kind pairs (the merger is characterised for all pairs in th_call_merger); selectors / ids / generations symbolic
//@ decides: C05/C09/C13: when the state exists only in previous (only in current) data it is taken unchanged with value source previous (current); when it exists in both, the call merger decides; when in neither, NotMet; both sliders advance by exactly the states they held; the position maps record where the merged value came from (previous, current or both) - the basis for stream generations (C12/C13)
//@ outside: traces with more than one state per side (the slider kernel covers positions), par/fold structure around the call
//@ harness: name=call_slider_merge_both_stream_results props=C05,C09,C13,C04,C12,C11 cap=2400 cost=300 sym="presence of the state in previous / current data; CID selectors; any generations" bound="<= 1 state per trace; both states stream results"
//@ harness: name=call_slider_merge_request_vs_result props=C05,C09,C13,C04,C11 cap=2400 cost=300 sym="presence in previous / current data; selectors; any call id" bound="previous: request with call id, current: scalar result"
//@ harness: name=call_slider_merge_result_vs_request props=C05,C09,C13,C04,C11 cap=2400 cost=300 sym="presence in previous / current data; selectors" bound="previous: failed result, current: request"

use super::*;
use air_interpreter_cid::CID;
use std::rc::Rc;

fn fmt_stub(_: std::fmt::Arguments<'_>) -> String {
    String::new()
}
fn random_state_stub() -> std::hash::RandomState {
    unsafe { std::mem::transmute::<(u64, u64), std::hash::RandomState>((0, 0)) }
}
/// log of BiHashMap::insert calls: (address of the map, left, right)
static mut LOG: [(usize, u32, u32); 2] = [(0, 0, 0); 2];
static mut NLOG: usize = 0;

fn bimap_insert_stub<L, R, LS, RS>(m: &mut bimap::BiHashMap<L, R, LS, RS>, l: L, r: R) -> bimap::Overwritten<L, R>
where
    L: Eq + std::hash::Hash,
    R: Eq + std::hash::Hash,
    LS: std::hash::BuildHasher,
    RS: std::hash::BuildHasher,
{
    // the only instantiation reachable here is L = R = TracePos (repr(transparent) over u32)
    kani::assert(std::mem::size_of::<L>() == 4 && std::mem::size_of::<R>() == 4, "stub exactness: position maps only");
    unsafe {
        let lv: u32 = std::mem::transmute_copy(&l);
        let rv: u32 = std::mem::transmute_copy(&r);
        if NLOG < 2 {
            LOG[NLOG] = (m as *mut _ as *mut u8 as usize, lv, rv);
        }
        NLOG += 1;
    }
    std::mem::forget(l);
    std::mem::forget(r);
    bimap::Overwritten::Neither
}

/// what was recorded for the given map: None, or (left, right); asserts at most one record per map
fn recorded(map_addr: usize) -> Option<(u32, u32)> {
    unsafe {
        let mut found = None;
        let mut i = 0;
        while i < 2 && i < NLOG {
            if LOG[i].0 == map_addr {
                kani::assert(found.is_none(), "C13: one record per map and merged state");
                found = Some((LOG[i].1, LOG[i].2));
            }
            i += 1;
        }
        found
    }
}

fn exact_clone_stub(s: &ExecutedState) -> ExecutedState {
    match s {
        ExecutedState::Par(p) => ExecutedState::Par(*p),
        ExecutedState::Call(c) => ExecutedState::Call(c.clone()),
        _ => {
            kani::assert(false, "stub exactness: only par and call states are cloned in this harness");
            ExecutedState::par(0, 0)
        }
    }
}

#[derive(Clone, Copy)]
struct Sel {
    kind: u8,
    pick: bool,
    n: u32,
}

fn sel_of_kind(kind: u8) -> Sel {
    Sel {
        kind,
        pick: kani::any(),
        n: kani::any(),
    }
}

fn mk(s: Sel) -> CallResult {
    let name = if s.pick { "p" } else { "q" };
    let cid = if s.pick { "a" } else { "b" };
    match s.kind {
        0 => CallResult::sent_peer_id(Rc::new(name.to_string())),
        1 => CallResult::sent_peer_id_with_call_id(Rc::new(name.to_string()), s.n),
        2 => CallResult::executed_scalar(CID::new(cid)),
        3 => CallResult::Executed(ValueRef::Stream {
            cid: CID::new(cid),
            generation: (s.n as usize).into(),
        }),
        4 => CallResult::executed_unused(CID::new(cid)),
        _ => CallResult::failed(CID::new(cid)),
    }
}

fn eq_mk(x: &CallResult, s: Sel) -> bool {
    let t = mk(s);
    let r = *x == t;
    std::mem::forget(t);
    r
}

fn is_request(s: Sel) -> bool {
    s.kind <= 1
}

fn honest(a: Sel, b: Sel) -> bool {
    is_request(a) || is_request(b) || (a.kind == b.kind && a.pick == b.pick)
}

fn body(a: Sel, b: Sel) {
    // the state sits at position 1 of the previous trace and at position 0 of the current one: the two
    // position maps must not be confused
    let mut dk = DataKeeper::from_trace(
        vec![ExecutedState::par(0, 0), ExecutedState::Call(mk(a))].into(),
        vec![ExecutedState::Call(mk(b))].into(),
    );
    let (in_prev, in_cur): (bool, bool) = (kani::any(), kani::any());
    let r1 = dk.prev_slider_mut().set_position_and_len(1.into(), in_prev as u32);
    let r2 = dk.current_slider_mut().set_position_and_len(0.into(), in_cur as u32);
    kani::assert(r1.is_ok() && r2.is_ok(), "harness: intervals fit");
    unsafe {
        NLOG = 0;
    }
    let prev_map = &dk.new_to_prev_pos as *const _ as *const u8 as usize;
    let cur_map = &dk.new_to_current_pos as *const _ as *const u8 as usize;
    let r = try_merge_next_state_as_call(&mut dk);
    let (in_prev_map, in_cur_map) = (recorded(prev_map), recorded(cur_map));
    kani::assert(usize::from(dk.prev_slider().position()) == 1 + in_prev as usize, "C09: previous slider advanced by what it held");
    kani::assert(usize::from(dk.current_slider().position()) == in_cur as usize, "C09: current slider advanced by what it held");
    match (&r, in_prev, in_cur) {
        (Ok(MergerCallResult::NotMet), false, false) => {}
        (Ok(MergerCallResult::Met(m)), true, false) => {
            kani::assert(eq_mk(&m.result, a) && matches!(m.source, ValueSource::PreviousData), "C05/C09: a state only in previous data is taken unchanged, source previous");
            kani::assert(in_prev_map == Some((0, 1)) && in_cur_map.is_none(), "C13: position map points to previous data only");
        }
        (Ok(MergerCallResult::Met(m)), false, true) => {
            kani::assert(eq_mk(&m.result, b) && matches!(m.source, ValueSource::CurrentData), "C05/C09: a state only in current data is taken unchanged, source current");
            kani::assert(in_cur_map == Some((0, 0)) && in_prev_map.is_none(), "C13: position map points to current data only");
        }
        (Ok(MergerCallResult::Met(m)), true, true) => {
            kani::assert(honest(a, b), "C04/C14: merged only if honest");
            let from_current = is_request(a) && !is_request(b);
            kani::assert(eq_mk(&m.result, if from_current { b } else { a }), "C05/C09: the result wins, else previous is kept");
            kani::assert(matches!(m.source, ValueSource::CurrentData) == from_current, "C12/C13: value source follows the state that was kept");
            kani::assert(usize::from(m.trace_pos) == 0, "C05: position of the merged state in the result trace");
            if from_current {
                kani::assert(in_cur_map == Some((0, 0)) && in_prev_map.is_none(), "C13: maps to its position in current data");
            } else if is_request(b) || is_request(a) {
                kani::assert(in_prev_map == Some((0, 1)) && in_cur_map.is_none(), "C13: maps to its position in previous data");
            } else {
                kani::assert(in_prev_map == Some((0, 1)), "C11/C13: a state present in both data maps to its position in the PREVIOUS trace ...");
                kani::assert(in_cur_map == Some((0, 0)), "C11/C13: ... and to its position in the CURRENT trace");
            }
        }
        (Err(_), true, true) => kani::assert(!honest(a, b), "C04: only dishonest pairs are rejected"),
        _ => kani::assert(false, "C05/C09: presence of a state must be reflected in the merge result"),
    }
    kani::cover!(matches!(&r, Ok(MergerCallResult::Met(_))) && in_prev && in_cur, "both present, merged");
    kani::cover!(matches!(&r, Ok(MergerCallResult::Met(_))) && !in_prev && in_cur, "only current");
    std::mem::forget((r, r1, r2));
    std::mem::forget(dk);
}

macro_rules! pair {
    ($($name:ident => $ka:expr, $kb:expr;)*) => {
        $(
            #[kani::proof]
            #[kani::unwind(4)]
            #[kani::stub(bimap::BiHashMap::insert, bimap_insert_stub)]
            #[kani::stub(<air_interpreter_data::ExecutedState as std::clone::Clone>::clone, exact_clone_stub)]
            #[kani::stub(std::hash::RandomState::new, random_state_stub)]
            #[kani::stub(alloc::fmt::format, fmt_stub)]
            fn $name() {
                body(sel_of_kind($ka), sel_of_kind($kb));
            }
        )*
    };
}

// The call merger itself is characterised for all kind pairs in th_call_merger; here three representative
// pairs exercise the slider / presence / position-map wiring around it.
pair! {
    call_slider_merge_both_stream_results => 3, 3;
    call_slider_merge_request_vs_result => 1, 2;
    call_slider_merge_result_vs_request => 5, 0;
}
