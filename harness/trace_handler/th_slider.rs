//@ module: th_slider
//@ crate: air-trace-handler
//@ attach: crates/air-lib/trace-handler/src/data_keeper/trace_slider.rs
//@ functions: TraceSlider::new; TraceSlider::next_state; TraceSlider::set_position_and_len; TraceSlider::set_subtrace_len; TraceSlider::subtrace_len; TraceSlider::position
//@ assumes: trace entries are heap-free Par(0,0) placeholders (the slider never inspects them); trace length is concrete per harness (0, 3, 4)
//@ stubs: <ExecutedState as Clone>::clone -> returns Par(0,0): exact for the placeholder traces used here (every entry is Par(0,0)); without it CBMC explores the clone glue of every ExecutedState variant at each next_state (> 30 GB, measured)
//@ harness: name=c01_slider_set_position_and_len playback=1 props=C01 panicfree=1 cap=120 cost=5 sym="position,subtrace_len: any u32" bound="3-entry trace"
//@ harness: name=c01_slider_ops3 playback=1 props=C01 panicfree=1 cap=300 cost=40 sym="3 operations chosen symbolically among set_position_and_len/set_subtrace_len/subtrace_len with any u32 arguments" bound="3-entry trace, 3 operations"
//@ harness: name=c01_slider_ops_empty playback=1 props=C01 panicfree=1 cap=300 cost=20 sym="as ops3" bound="empty trace, 3 operations"
//@ harness: name=c09_slider_accepts_exactly_fitting playback=1 props=C09,C04 cap=120 cost=5 sym="position,subtrace_len: any u32 with position+len <= u32::MAX" bound="4-entry trace"
//@ harness: name=c09_slider_interval_exactly_once playback=1 props=C09,C07 cap=300 cost=30 sym="position, subtrace_len: any u32 with position+len <= u32::MAX" bound="4-entry trace, <= 6 next_state calls"
//@ harness: name=c09_slider_vacuity playback=1 props=C09 expect=fail cap=300 cost=30 sym="as c09_slider_interval_exactly_once" bound="same"

use super::*;
use air_interpreter_data::ExecutedState;

fn placeholder_trace(n: usize) -> Vec<ExecutedState> {
    let mut v = Vec::with_capacity(n);
    let mut i = 0;
    while i < n {
        v.push(ExecutedState::par(0, 0));
        i += 1;
    }
    v
}

#[kani::proof]
#[kani::unwind(5)]
fn c01_slider_set_position_and_len() {
    let mut s = TraceSlider::new(placeholder_trace(3));
    let pos: u32 = kani::any();
    let len: u32 = kani::any();
    let r = s.set_position_and_len(pos.into(), len);
    if r.is_ok() {
        let _ = s.subtrace_len();
    }
    kani::cover!(r.is_ok(), "accepted");
    kani::cover!(r.is_err(), "rejected");
    std::mem::forget(r);
    std::mem::forget(s);
}

fn one_op(s: &mut TraceSlider) {
    let op: u8 = kani::any();
    let a: u32 = kani::any();
    let b: u32 = kani::any();
    match op & 3 {
        0 | 1 => std::mem::forget(s.set_position_and_len(a.into(), b)),
        2 => std::mem::forget(s.set_subtrace_len(a)),
        _ => {
            let _ = s.subtrace_len();
        }
    }
}

#[kani::proof]
#[kani::unwind(5)]
fn c01_slider_ops3() {
    let mut s = TraceSlider::new(placeholder_trace(3));
    one_op(&mut s);
    one_op(&mut s);
    one_op(&mut s);
    kani::cover!(true, "end reached");
    std::mem::forget(s);
}

#[kani::proof]
#[kani::unwind(5)]
fn c01_slider_ops_empty() {
    let mut s = TraceSlider::new(placeholder_trace(0));
    one_op(&mut s);
    one_op(&mut s);
    one_op(&mut s);
    kani::cover!(true, "end reached");
    std::mem::forget(s);
}

/// set_position_and_len accepts exactly the intervals that fit the trace (or are empty).
#[kani::proof]
#[kani::unwind(6)]
fn c09_slider_accepts_exactly_fitting() {
    let mut s = TraceSlider::new(placeholder_trace(4));
    let pos: u32 = kani::any();
    let len: u32 = kani::any();
    // pos + len > u32::MAX is C01's subject (panic), not this property's
    kani::assume(pos.checked_add(len).is_some());
    let r = s.set_position_and_len(pos.into(), len);
    let fits = len == 0 || pos as u64 + len as u64 <= 4;
    kani::assert(r.is_ok() == fits, "C09/C04: exactly the fitting intervals are accepted");
    if r.is_ok() {
        kani::assert(usize::from(s.position()) == pos as usize, "C09: position set");
        kani::assert(s.subtrace_len() == len, "C09: len set");
    }
    kani::cover!(r.is_ok() && len == 4, "whole trace accepted");
    kani::cover!(r.is_err(), "rejected");
    std::mem::forget(r);
    std::mem::forget(s);
}

/// After an accepted set_position_and_len(p, l) the slider hands out exactly the entries
/// p .. p+l (each once, in order) and then None.
fn clone_stub(_s: &ExecutedState) -> ExecutedState {
    ExecutedState::par(0, 0)
}

fn interval_body(twin: bool) {
    let mut s = TraceSlider::new(placeholder_trace(4));
    let pos: u32 = kani::any();
    let len: u32 = kani::any();
    kani::assume(pos.checked_add(len).is_some());
    let r = s.set_position_and_len(pos.into(), len);
    if r.is_ok() {
        let mut handed = 0u32;
        let mut i = 0;
        while i < 6 {
            let before: u32 = usize::from(s.position()) as u32;
            match s.next_state() {
                Some(st) => {
                    kani::assert(before == pos + handed, "C09: entries are handed out in order, none skipped");
                    handed += 1;
                    std::mem::forget(st);
                }
                None => break,
            }
            i += 1;
        }
        kani::assert(handed == len, "C09: exactly the interval is handed out, then None");
        kani::assert(s.subtrace_len() == 0, "C09: nothing left in a consumed interval");
        kani::assert(s.next_state().is_none(), "C07: a consumed interval stays consumed");
        kani::cover!(handed == 4, "whole trace consumed");
        kani::cover!(handed == 0, "empty interval");
        if twin {
            kani::assert(false, "vacuity twin");
        }
    }
    std::mem::forget(r);
    std::mem::forget(s);
}

#[kani::proof]
#[kani::unwind(8)]
#[kani::stub(<air_interpreter_data::ExecutedState as std::clone::Clone>::clone, clone_stub)]
fn c09_slider_interval_exactly_once() {
    interval_body(false);
}

#[kani::proof]
#[kani::unwind(8)]
#[kani::stub(<air_interpreter_data::ExecutedState as std::clone::Clone>::clone, clone_stub)]
fn c09_slider_vacuity() {
    interval_body(true);
}
