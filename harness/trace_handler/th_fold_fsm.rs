//@ module: th_fold_fsm
//@ crate: air-trace-handler
//@ attach: crates/air-lib/trace-handler/src/state_automata/fold_fsm.rs
//@ functions: FoldFSM::from_fold_start; FoldFSM::meet_iteration_start; FoldFSM::meet_iteration_end; FoldFSM::meet_back_iterator; FoldFSM::meet_generation_end; FoldFSM::meet_fold_end; SubTraceLoreCtor::{from_before_start,before_end,maybe_before_end,after_start,after_end,finish,into_subtrace_lore}; PositionsTracker::len; SubTraceLoreCtorQueue::{add_element,current,traverse_back,finish,transform_to_lore}; fold_fsm::state_handler::CtxStateHandler::{prepare,set_final_states}; compute_new_state; lore_applier::apply_fold_lore_before/after (None lore); StateInserter
//@ stubs: std::hash::RandomState::new -> fixed keys (position maps and resolved lore maps stay empty); alloc::fmt::format -> empty String
//@ assumes: (any-order harnesses) fold events follow the executors' protocol: per generation forward moves, then back moves, then the generation end; orders with a forward move after a back move are excluded (argued unreachable, see harness comment)
//@ assumes: no fold state in previous/current data (fresh fold: resolved lore empty), empty input traces; the number of entries emitted before the fold (0..=1) and by each part of each iteration (0..=2) is symbolic; value positions are any u32; entries are emitted by replacing the result trace with a fixed-capacity placeholder trace + set_len
//@ decides: C04/C09: at the start of an iteration both sliders are placed on the iteration's BEFORE subtrace of their own data, at the start of the back traversal on its AFTER subtrace (previous and current data independently); an absent lore gives an empty interval
//@ decides: C01: no order of fold events (as an arbitrary script can produce them, e.g. next of an outer fold inside an inner one) makes the fold FSM panic
//@ decides: C10: for the call orders of one generation with two iterations (full traversal) and with an early exit after the first iteration body, the fold state written at the end holds one lore entry per iteration whose before/after intervals start where the corresponding part started, have exactly the emitted lengths, are pairwise disjoint, ordered (before1, before2, after2, after1) and together cover exactly the entries emitted after the fold state; value_pos is the value supplied
//@ outside: folds merged with previous/current fold states (resolved lore, slider repositioning by lore), more than 2 iterations per generation, several generations, nested folds
//@ harness: name=c10_fold_lore_two_iterations props=C10,C08 cap=1800 cost=200 sym="entries emitted: before the fold 0..=1; before-next and after-next part of each of 2 iterations 0..=2 each; value positions any u32" bound="1 generation, 2 iterations, result trace <= 10 entries"
//@ harness: name=c10_fold_lore_single_value_after_part props=C10 cap=1200 cost=120 sym="entries emitted before the fold 0..=1, before next 0..=2, after the back traversal started 0..=2; value position any u32" bound="1 generation, 1 iteration whose after-part is closed by the generation end (no second back-iterator call)"
//@ harness: name=c10_fold_lore_early_exit props=C10 cap=1200 cost=100 sym="entries emitted before the fold 0..=1 and by the first iteration body 0..=2; value position any u32" bound="1 generation, 1 iteration left early (next never reached)"
//@ harness: name=c04_fold_lore_applier_positions props=C04,C09 cap=1200 cost=100 sym="before/after subtrace (begin, len) of the previous-data and of the current-data lore of one iteration: any u32 that fit a 6-entry trace; lore present / absent per side" bound="6-entry placeholder traces"
//@ harness: name=c01_fold_fsm_any_call_order props=C01 panicfree=1 cap=1800 cost=300 sym="2 fold events chosen symbolically: next-forward (iteration end + start at any value position), next-back (iteration end + back iterator), generation end; a failing event ends the run" bound="fresh fold without a started iteration, 2 events"
//@ harness: name=c01_fold_fsm_any_order_after_start props=C01 panicfree=1 cap=2400 cost=400 sym="one iteration start, then 3 events chosen symbolically among next-forward, next-back, generation end" bound="fresh fold, 1 + 3 events"
//@ harness: name=c10_fold_fsm_vacuity props=C10 expect=fail cap=1800 cost=200 sym="as two_iterations" bound="same"

use super::*;

fn fmt_stub(_: std::fmt::Arguments<'_>) -> String {
    String::new()
}
fn random_state_stub() -> std::hash::RandomState {
    unsafe { std::mem::transmute::<(u64, u64), std::hash::RandomState>((0, 0)) }
}

const CAP: usize = 10;

fn placeholder_trace(n: usize) -> Vec<ExecutedState> {
    let mut v = Vec::with_capacity(n);
    let mut i = 0;
    while i < n {
        v.push(ExecutedState::par(0, 0));
        i += 1;
    }
    v
}

/// "emit k more entries": all entries are identical placeholders, so the trace is replaced by one that is k longer
fn emit(dk: &mut DataKeeper, k: u8) {
    let n = dk.result_trace.len() + k as usize;
    kani::assert(n <= CAP, "harness: result trace capacity");
    let mut v = placeholder_trace(CAP);
    // keep what was written so far at the fold position: only the fold placeholder matters and it is re-written at the end
    unsafe { v.set_len(n) };
    let old = std::mem::replace(&mut dk.result_trace, v.into());
    std::mem::forget(old);
}

fn small(max: u8) -> u8 {
    let k: u8 = kani::any();
    kani::assume(k <= max);
    k
}

fn desc_is(d: &air_interpreter_data::SubTraceDesc, begin: u32, len: u32) -> bool {
    usize::from(d.begin_pos) == begin as usize && d.subtrace_len == len
}

fn two_iterations_body(twin: bool) {
    let mut dk = DataKeeper::from_trace(placeholder_trace(0).into(), placeholder_trace(0).into());
    let before = small(1);
    emit(&mut dk, before);
    let (v1, v2): (u32, u32) = (kani::any(), kani::any());
    let (a1, a2, b2, b1) = (small(2), small(2), small(2), small(2));
    let r = FoldFSM::from_fold_start(MergerFoldResult::default(), &mut dk);
    let mut fsm = match r {
        Ok(f) => f,
        Err(e) => {
            kani::assert(false, "C04: a fresh fold is always accepted");
            std::mem::forget(e);
            return;
        }
    };
    let n0 = before as u32 + 1;
    // iteration 1 (before part)
    let r1 = fsm.meet_iteration_start(v1.into(), &mut dk);
    emit(&mut dk, a1);
    // `next`: iteration 1 before-part ends, iteration 2 starts
    fsm.meet_iteration_end(&dk);
    let r2 = fsm.meet_iteration_start(v2.into(), &mut dk);
    emit(&mut dk, a2);
    // `next` inside iteration 2: nothing left, the back traversal starts
    fsm.meet_iteration_end(&dk);
    let r3 = fsm.meet_back_iterator(&mut dk);
    emit(&mut dk, b2);
    // return into iteration 1
    let r4 = fsm.meet_back_iterator(&mut dk);
    emit(&mut dk, b1);
    fsm.meet_generation_end(&dk);
    fsm.meet_fold_end(&mut dk);
    kani::assert(r1.is_ok() && r2.is_ok() && r3.is_ok() && r4.is_ok(), "C04: no step of a fresh fold fails");
    let total = n0 + a1 as u32 + a2 as u32 + b2 as u32 + b1 as u32;
    kani::assert(dk.result_trace.len() == total as usize, "C10: the fold itself adds exactly one entry");
    match dk.result_trace.get((before as u32).into()) {
        Some(ExecutedState::Fold(f)) => {
            kani::assert(f.lore.len() == 2, "C10: one lore entry per iteration");
            let (l1, l2) = (&f.lore[0], &f.lore[1]);
            kani::assert(usize::from(l1.value_pos) == v1 as usize && usize::from(l2.value_pos) == v2 as usize, "C10: every iteration points to the value it ran for");
            kani::assert(l1.subtraces_desc.len() == 2 && l2.subtraces_desc.len() == 2, "C10: a before and an after interval per iteration");
            kani::assert(desc_is(&l1.subtraces_desc[0], n0, a1 as u32), "C10: before-interval of iteration 1");
            kani::assert(desc_is(&l2.subtraces_desc[0], n0 + a1 as u32, a2 as u32), "C10: before-interval of iteration 2 follows that of iteration 1");
            kani::assert(desc_is(&l2.subtraces_desc[1], n0 + a1 as u32 + a2 as u32, b2 as u32), "C10: after-interval of iteration 2 follows the before-intervals");
            kani::assert(desc_is(&l1.subtraces_desc[1], n0 + a1 as u32 + a2 as u32 + b2 as u32, b1 as u32), "C10: after-interval of iteration 1 comes last and ends the fold's range");
        }
        _ => kani::assert(false, "C10: the placeholder is replaced by the fold state"),
    }
    kani::cover!(a1 == 2 && a2 == 1 && b2 == 2 && b1 == 1 && before == 1, "non-trivial sizes");
    if twin {
        kani::assert(false, "vacuity twin");
    }
    std::mem::forget((r1, r2, r3, r4));
    std::mem::forget(dk);
}

#[kani::proof]
#[kani::unwind(12)]
#[kani::stub(std::hash::RandomState::new, random_state_stub)]
#[kani::stub(alloc::fmt::format, fmt_stub)]
fn c10_fold_lore_two_iterations() {
    two_iterations_body(false);
}

#[kani::proof]
#[kani::unwind(12)]
#[kani::stub(std::hash::RandomState::new, random_state_stub)]
#[kani::stub(alloc::fmt::format, fmt_stub)]
fn c10_fold_fsm_vacuity() {
    two_iterations_body(true);
}

#[kani::proof]
#[kani::unwind(12)]
#[kani::stub(std::hash::RandomState::new, random_state_stub)]
#[kani::stub(alloc::fmt::format, fmt_stub)]
fn c10_fold_lore_early_exit() {
    let mut dk = DataKeeper::from_trace(placeholder_trace(0).into(), placeholder_trace(0).into());
    let before = small(1);
    emit(&mut dk, before);
    let v1: u32 = kani::any();
    let a1 = small(2);
    let r = FoldFSM::from_fold_start(MergerFoldResult::default(), &mut dk);
    let mut fsm = match r {
        Ok(f) => f,
        Err(e) => {
            kani::assert(false, "C04: a fresh fold is always accepted");
            std::mem::forget(e);
            return;
        }
    };
    let n0 = before as u32 + 1;
    let r1 = fsm.meet_iteration_start(v1.into(), &mut dk);
    emit(&mut dk, a1);
    // the body stops before `next` (join behaviour / error): the generation ends right away
    fsm.meet_generation_end(&dk);
    fsm.meet_fold_end(&mut dk);
    kani::assert(r1.is_ok(), "C04: no step fails");
    match dk.result_trace.get((before as u32).into()) {
        Some(ExecutedState::Fold(f)) => {
            kani::assert(f.lore.len() == 1, "C10: one lore entry");
            let l1 = &f.lore[0];
            kani::assert(usize::from(l1.value_pos) == v1 as usize, "C10: value position kept");
            kani::assert(l1.subtraces_desc.len() == 2, "C10: two intervals");
            kani::assert(desc_is(&l1.subtraces_desc[0], n0, a1 as u32), "C10: everything emitted belongs to the before-interval");
            kani::assert(desc_is(&l1.subtraces_desc[1], n0 + a1 as u32, 0), "C10: empty after-interval right behind it");
        }
        _ => kani::assert(false, "C10: the placeholder is replaced by the fold state"),
    }
    kani::cover!(a1 == 2 && before == 1, "non-trivial sizes");
    std::mem::forget(r1);
    std::mem::forget(dk);
}

fn any_desc() -> air_interpreter_data::SubTraceDesc {
    let (b, l): (u32, u32) = (kani::any(), kani::any());
    kani::assume(b <= 6 && l <= 6 && b + l <= 6);
    air_interpreter_data::SubTraceDesc { begin_pos: b.into(), subtrace_len: l }
}

fn any_lore() -> Option<ResolvedSubTraceDescs> {
    if kani::any() {
        Some(ResolvedSubTraceDescs::new(any_desc(), any_desc()))
    } else {
        None
    }
}

fn slider_at(s: &crate::data_keeper::TraceSlider, d: &air_interpreter_data::SubTraceDesc) -> bool {
    s.subtrace_len() == d.subtrace_len && (d.subtrace_len == 0 || usize::from(s.position()) == usize::from(d.begin_pos))
}

#[kani::proof]
#[kani::unwind(8)]
#[kani::stub(std::hash::RandomState::new, random_state_stub)]
#[kani::stub(alloc::fmt::format, fmt_stub)]
fn c04_fold_lore_applier_positions() {
    let mut dk = DataKeeper::from_trace(placeholder_trace(6).into(), placeholder_trace(6).into());
    let (prev_lore, cur_lore) = (any_lore(), any_lore());
    let after: bool = kani::any();
    let r = if after {
        apply_fold_lore_after(&mut dk, &prev_lore, &cur_lore)
    } else {
        apply_fold_lore_before(&mut dk, &prev_lore, &cur_lore)
    };
    kani::assert(r.is_ok(), "C04: a lore that fits the trace is always applied");
    match &prev_lore {
        Some(l) => kani::assert(slider_at(dk.prev_slider(), if after { &l.after_subtrace } else { &l.before_subtrace }), "C04/C09: previous slider on the matching subtrace of the previous lore"),
        None => kani::assert(dk.prev_slider().subtrace_len() == 0, "C09: no lore, empty interval"),
    }
    match &cur_lore {
        Some(l) => kani::assert(slider_at(dk.current_slider(), if after { &l.after_subtrace } else { &l.before_subtrace }), "C04/C09: current slider on the matching subtrace of the current lore"),
        None => kani::assert(dk.current_slider().subtrace_len() == 0, "C09: no lore, empty interval"),
    }
    kani::cover!(after && prev_lore.is_some() && cur_lore.is_some(), "after-subtraces of both data");
    std::mem::forget((r, prev_lore, cur_lore));
    std::mem::forget(dk);
}

/// Fold events as the executors produce them: a stream fold starts an iteration, and every `next`
/// (wherever the script places it, also inside a nested fold or several times per body) ends the current
/// iteration part and then either starts the next iteration or turns back; a generation end closes the
/// round.  Any trace-handler error is uncatchable and ends the run.
fn any_order_body(start_first: bool, events: u8) {
    let mut dk = DataKeeper::from_trace(placeholder_trace(0).into(), placeholder_trace(0).into());
    let r = FoldFSM::from_fold_start(MergerFoldResult::default(), &mut dk);
    let mut fsm = match r {
        Ok(f) => f,
        Err(e) => {
            std::mem::forget(e);
            return;
        }
    };
    let mut failed = false;
    if start_first {
        let r = fsm.meet_iteration_start(kani::any::<u32>().into(), &mut dk);
        failed = r.is_err();
        std::mem::forget(r);
    }
    // Within one generation the executors move forward (next with more values) some times and then only
    // back: a forward move after the back traversal has started would need `iterable.next()` to succeed
    // after it failed deeper in the recursion; the validator rejects several `next` per stream fold and
    // re-entering an inner scalar fold fails with "multiple iterable values" before the generation ends
    // (replay scenario c01_fold_next_orders).  Such orders are excluded here.
    let mut back_started = false;
    let mut i = 0;
    while i < events && !failed {
        let op: u8 = kani::any();
        kani::assume(!(op % 3 == 0 && back_started));
        if op % 3 == 1 {
            back_started = true;
        }
        if op % 3 == 2 {
            back_started = false;
        }
        match op % 3 {
            0 => {
                // next, more values: iteration end + iteration start
                let r1 = fsm.meet_iteration_end(&dk);
                failed = r1.is_err();
                std::mem::forget(r1);
                if !failed {
                    let r2 = fsm.meet_iteration_start(kani::any::<u32>().into(), &mut dk);
                    failed = r2.is_err();
                    std::mem::forget(r2);
                }
            }
            1 => {
                // next, no more values (or return from the recursion): iteration end + back iterator
                let r1 = fsm.meet_iteration_end(&dk);
                failed = r1.is_err();
                std::mem::forget(r1);
                if !failed {
                    let r2 = fsm.meet_back_iterator(&mut dk);
                    failed = r2.is_err();
                    std::mem::forget(r2);
                }
            }
            _ => fsm.meet_generation_end(&dk),
        }
        i += 1;
    }
    kani::cover!(failed, "an out-of-protocol next is reported as an error");
    kani::cover!(!failed, "end reached without error");
    std::mem::forget(fsm);
    std::mem::forget(dk);
}

#[kani::proof]
#[kani::unwind(6)]
#[kani::stub(std::hash::RandomState::new, random_state_stub)]
#[kani::stub(alloc::fmt::format, fmt_stub)]
fn c01_fold_fsm_any_call_order() {
    any_order_body(false, 2);
}

#[kani::proof]
#[kani::unwind(6)]
#[kani::stub(std::hash::RandomState::new, random_state_stub)]
#[kani::stub(alloc::fmt::format, fmt_stub)]
fn c01_fold_fsm_any_order_after_start() {
    any_order_body(true, 3);
}

/// One value in the generation: `next` turns back at once, the instructions after it (the fold's last
/// instruction) emit entries, and the after-interval is closed only by the generation end.
#[kani::proof]
#[kani::unwind(12)]
#[kani::stub(std::hash::RandomState::new, random_state_stub)]
#[kani::stub(alloc::fmt::format, fmt_stub)]
fn c10_fold_lore_single_value_after_part() {
    let mut dk = DataKeeper::from_trace(placeholder_trace(0).into(), placeholder_trace(0).into());
    let before = small(1);
    emit(&mut dk, before);
    let v1: u32 = kani::any();
    let (a1, b1) = (small(2), small(2));
    let r = FoldFSM::from_fold_start(MergerFoldResult::default(), &mut dk);
    let mut fsm = match r {
        Ok(f) => f,
        Err(e) => {
            kani::assert(false, "C04: a fresh fold is always accepted");
            std::mem::forget(e);
            return;
        }
    };
    let n0 = before as u32 + 1;
    let r1 = fsm.meet_iteration_start(v1.into(), &mut dk);
    emit(&mut dk, a1);
    let r2 = fsm.meet_iteration_end(&dk);
    let r3 = fsm.meet_back_iterator(&mut dk);
    emit(&mut dk, b1);
    fsm.meet_generation_end(&dk);
    fsm.meet_fold_end(&mut dk);
    kani::assert(r1.is_ok() && r2.is_ok() && r3.is_ok(), "C04: no step fails");
    match dk.result_trace.get((before as u32).into()) {
        Some(ExecutedState::Fold(f)) => {
            kani::assert(f.lore.len() == 1 && f.lore[0].subtraces_desc.len() == 2, "C10: one lore entry with two intervals");
            kani::assert(desc_is(&f.lore[0].subtraces_desc[0], n0, a1 as u32), "C10: before-interval covers what was emitted before next");
            kani::assert(desc_is(&f.lore[0].subtraces_desc[1], n0 + a1 as u32, b1 as u32), "C10: after-interval starts where the back traversal started and covers everything emitted until the generation end (no gap at the tail)");
        }
        _ => kani::assert(false, "C10: the placeholder is replaced by the fold state"),
    }
    kani::cover!(a1 == 1 && b1 == 2, "non-trivial sizes");
    std::mem::forget((r1, r2, r3));
    std::mem::forget(dk);
}
