//@ module: th_canon_merger
//@ crate: air-trace-handler
//@ attach: crates/air-lib/trace-handler/src/merger/canon_merger.rs
//@ functions: merge_canon_results; prepare_both_canon_result; <CanonResult as PartialEq>::eq
//@ stubs: alloc::fmt::format -> empty String
//@ assumes: palette: RequestSentBy(p|q), Executed(CID a|b) on either side (all 4x4 shapes), 1-byte strings
//@ decides: C11: an executed canon result is never replaced by a request and never by a different executed result (two different executed CIDs are rejected); C09: the executed result survives every successful merge; C07: idempotent; C08: symmetric; C04: honest pairs accepted
//@ outside: whether the designated peer computed the canon value from the right stream values (executor code), CID hashing
//@ harness: name=canon_merge_fixed_once props=C11,C09,C04,C14 cap=600 cost=30 sym="both states: kind (2 variants) x peer/CID selector" bound="palette above; unwind 4"
//@ harness: name=canon_merge_idempotent_symmetric props=C07,C08,C11 cap=600 cost=40 sym="same" bound="same"
//@ harness: name=canon_merge_vacuity props=C11 expect=fail cap=600 cost=30 sym="same" bound="same"

use super::*;
use air_interpreter_cid::CID;
use std::rc::Rc;

fn fmt_stub(_: std::fmt::Arguments<'_>) -> String {
    String::new()
}

#[derive(Clone, Copy)]
struct Sel {
    executed: bool,
    pick: bool,
}

fn any_sel() -> Sel {
    Sel {
        executed: kani::any(),
        pick: kani::any(),
    }
}

fn mk(s: Sel) -> CanonResult {
    if s.executed {
        CanonResult::executed(CID::new(if s.pick { "a" } else { "b" }))
    } else {
        CanonResult::request_sent_by(Rc::new(if s.pick { "p" } else { "q" }.to_string()))
    }
}

fn body(twin: bool) {
    let (a, b) = (any_sel(), any_sel());
    let r = merge_canon_results(mk(a), mk(b));
    let forked = a.executed && b.executed && a.pick != b.pick;
    kani::assert(r.is_err() == forked, "C11/C04: rejected iff both sides executed with different CIDs");
    if let Ok(c) = &r {
        if a.executed {
            kani::assert(*c == mk(a), "C11/C09: the previous executed canon result is kept");
        } else if b.executed {
            kani::assert(*c == mk(b), "C11/C09: the current executed canon result replaces a pending request");
        } else {
            kani::assert(*c == mk(a), "C11: two pending requests keep the previous one");
        }
    }
    kani::cover!(r.is_err(), "fork rejected");
    kani::cover!(r.is_ok() && !a.executed && b.executed, "request replaced by executed");
    if twin && r.is_ok() && a.executed && b.executed {
        kani::assert(false, "vacuity twin");
    }
    std::mem::forget(r);
}

#[kani::proof]
#[kani::unwind(4)]
#[kani::stub(alloc::fmt::format, fmt_stub)]
fn canon_merge_fixed_once() {
    body(false);
}

#[kani::proof]
#[kani::unwind(4)]
#[kani::stub(alloc::fmt::format, fmt_stub)]
fn canon_merge_vacuity() {
    body(true);
}

fn same_knowledge(x: &CanonResult, y: &CanonResult) -> bool {
    match (x, y) {
        (CanonResult::RequestSentBy(_), CanonResult::RequestSentBy(_)) => true,
        (CanonResult::Executed(c1), CanonResult::Executed(c2)) => c1 == c2,
        _ => false,
    }
}

#[kani::proof]
#[kani::unwind(4)]
#[kani::stub(alloc::fmt::format, fmt_stub)]
fn canon_merge_idempotent_symmetric() {
    let (a, b) = (any_sel(), any_sel());
    let ab = merge_canon_results(mk(a), mk(b));
    let ba = merge_canon_results(mk(b), mk(a));
    kani::assert(ab.is_ok() == ba.is_ok(), "C08: acceptance independent of order");
    if let (Ok(x), Ok(y)) = (&ab, &ba) {
        kani::assert(same_knowledge(x, y), "C08: same canon result whatever the order");
    }
    if let Ok(c) = &ab {
        let r1 = merge_canon_results(c.clone(), mk(b));
        let r2 = merge_canon_results(c.clone(), mk(a));
        let r3 = merge_canon_results(c.clone(), c.clone());
        kani::assert(matches!(&r1, Ok(x) if x == c), "C07: merge(c, b) == c");
        kani::assert(matches!(&r2, Ok(x) if x == c), "C07: merge(c, a) == c");
        kani::assert(matches!(&r3, Ok(x) if x == c), "C07: merge(c, c) == c");
        std::mem::forget((r1, r2, r3));
    }
    kani::cover!(ab.is_ok(), "merged");
    std::mem::forget((ab, ba));
}
