//@ module: th_call_merger
//@ crate: air-trace-handler
//@ attach: crates/air-lib/trace-handler/src/merger/call_merger.rs
//@ functions: merge_call_results; merge_executed; are_scalars_equal; are_streams_equal; check_equal; <CallResult as PartialEq>::eq
//@ assumes: state palette: RequestSentBy(PeerId p|q), RequestSentBy(PeerIdWithCallId{p|q, any u32}), Executed(Scalar a|b), Executed(Stream{a|b, any generation u32}), Executed(Unused a|b), Failed(a|b): every CallResult variant, 2 peers, 2 CIDs (1-byte strings), all u32 ids/generations
//@ stubs: alloc::fmt::format -> empty String (error values built on reject paths carry messages only)
//@ decides: C05/C09: a recorded result (Executed/Failed) is never replaced by a request and survives every successful merge unchanged in kind and CID; two requests keep the previous one
//@ decides: C04: honest pairs (equal results, or a request on either side) are never rejected
//@ decides: C14: two results merge only if they have the same kind and CID (stream generations may differ); everything else is rejected
//@ decides: C07/C08: the two harness families above characterise merge_call_results completely on the palette (accepted iff honest(a,b); result == winner(a,b)); call_merge_algebra_glue derives idempotence (re-merging the result with either input or itself changes nothing), symmetry and associativity up to sender/generation from that characterisation by pure solver reasoning; the direct two-merge harnesses (idempotent_*, symmetric_*, associative) run in the thorough tier as confirmation
//@ outside: whole-trace merging through sliders and FSMs (DESIGN.md 2.2); CID computation (hashing)
//@ harness: name=call_merge_result_never_lost_req props=C05,C09,C07,C08 cap=900 cost=40 sym="previous state: req (peer/CID selector, any u32 id/generation); current state: each of the 6 kinds in turn (concrete loop), selector, any u32" bound="palette above; 1-byte strings; unwind 8"
//@ harness: name=call_merge_result_never_lost_reqid props=C05,C09,C07,C08,C06 cap=900 cost=40 sym="previous state: reqid (peer/CID selector, any u32 id/generation); current state: each of the 6 kinds in turn (concrete loop), selector, any u32" bound="palette above; 1-byte strings; unwind 8"
//@ harness: name=call_merge_result_never_lost_scalar props=C05,C09,C07,C08,C13 cap=900 cost=40 sym="previous state: scalar (peer/CID selector, any u32 id/generation); current state: each of the 6 kinds in turn (concrete loop), selector, any u32" bound="palette above; 1-byte strings; unwind 8"
//@ harness: name=call_merge_result_never_lost_stream props=C05,C09,C07,C08,C12,C13 cap=900 cost=40 sym="previous state: stream (peer/CID selector, any u32 id/generation); current state: each of the 6 kinds in turn (concrete loop), selector, any u32" bound="palette above; 1-byte strings; unwind 8"
//@ harness: name=call_merge_result_never_lost_unused props=C05,C09,C07,C08 cap=900 cost=40 sym="previous state: unused (peer/CID selector, any u32 id/generation); current state: each of the 6 kinds in turn (concrete loop), selector, any u32" bound="palette above; 1-byte strings; unwind 8"
//@ harness: name=call_merge_result_never_lost_failed props=C05,C09,C07,C08 cap=900 cost=40 sym="previous state: failed (peer/CID selector, any u32 id/generation); current state: each of the 6 kinds in turn (concrete loop), selector, any u32" bound="palette above; 1-byte strings; unwind 8"
//@ harness: name=call_merge_accepts_honest_rejects_forged_req props=C04,C14,C07,C08 cap=900 cost=40 sym="previous state: req (peer/CID selector, any u32 id/generation); current state: each of the 6 kinds in turn (concrete loop), selector, any u32" bound="palette above; 1-byte strings; unwind 8"
//@ harness: name=call_merge_accepts_honest_rejects_forged_reqid props=C04,C14,C07,C08 cap=900 cost=40 sym="previous state: reqid (peer/CID selector, any u32 id/generation); current state: each of the 6 kinds in turn (concrete loop), selector, any u32" bound="palette above; 1-byte strings; unwind 8"
//@ harness: name=call_merge_accepts_honest_rejects_forged_scalar props=C04,C14,C07,C08 cap=900 cost=40 sym="previous state: scalar (peer/CID selector, any u32 id/generation); current state: each of the 6 kinds in turn (concrete loop), selector, any u32" bound="palette above; 1-byte strings; unwind 8"
//@ harness: name=call_merge_accepts_honest_rejects_forged_stream props=C04,C14,C07,C08 cap=900 cost=40 sym="previous state: stream (peer/CID selector, any u32 id/generation); current state: each of the 6 kinds in turn (concrete loop), selector, any u32" bound="palette above; 1-byte strings; unwind 8"
//@ harness: name=call_merge_accepts_honest_rejects_forged_unused props=C04,C14,C07,C08 cap=900 cost=40 sym="previous state: unused (peer/CID selector, any u32 id/generation); current state: each of the 6 kinds in turn (concrete loop), selector, any u32" bound="palette above; 1-byte strings; unwind 8"
//@ harness: name=call_merge_accepts_honest_rejects_forged_failed props=C04,C14,C07,C08 cap=900 cost=40 sym="previous state: failed (peer/CID selector, any u32 id/generation); current state: each of the 6 kinds in turn (concrete loop), selector, any u32" bound="palette above; 1-byte strings; unwind 8"
//@ harness: name=call_merge_idempotent_cb_req props=C07 tier=thorough core=0 cap=1200 cost=60 sym="previous state: req (peer/CID selector, any u32 id/generation); current state: each of the 6 kinds in turn (concrete loop), selector, any u32" bound="palette above; 1-byte strings; unwind 8"
//@ harness: name=call_merge_idempotent_cb_reqid props=C07 tier=thorough core=0 cap=1200 cost=60 sym="previous state: reqid (peer/CID selector, any u32 id/generation); current state: each of the 6 kinds in turn (concrete loop), selector, any u32" bound="palette above; 1-byte strings; unwind 8"
//@ harness: name=call_merge_idempotent_cb_scalar props=C07 tier=thorough core=0 cap=1200 cost=60 sym="previous state: scalar (peer/CID selector, any u32 id/generation); current state: each of the 6 kinds in turn (concrete loop), selector, any u32" bound="palette above; 1-byte strings; unwind 8"
//@ harness: name=call_merge_idempotent_cb_stream props=C07 tier=thorough core=0 cap=1200 cost=60 sym="previous state: stream (peer/CID selector, any u32 id/generation); current state: each of the 6 kinds in turn (concrete loop), selector, any u32" bound="palette above; 1-byte strings; unwind 8"
//@ harness: name=call_merge_idempotent_cb_unused props=C07 tier=thorough core=0 cap=1200 cost=60 sym="previous state: unused (peer/CID selector, any u32 id/generation); current state: each of the 6 kinds in turn (concrete loop), selector, any u32" bound="palette above; 1-byte strings; unwind 8"
//@ harness: name=call_merge_idempotent_cb_failed props=C07 tier=thorough core=0 cap=1200 cost=60 sym="previous state: failed (peer/CID selector, any u32 id/generation); current state: each of the 6 kinds in turn (concrete loop), selector, any u32" bound="palette above; 1-byte strings; unwind 8"
//@ harness: name=call_merge_idempotent_ca_req props=C07 tier=thorough core=0 cap=1200 cost=60 sym="previous state: req (peer/CID selector, any u32 id/generation); current state: each of the 6 kinds in turn (concrete loop), selector, any u32" bound="palette above; 1-byte strings; unwind 8"
//@ harness: name=call_merge_idempotent_ca_reqid props=C07 tier=thorough core=0 cap=1200 cost=60 sym="previous state: reqid (peer/CID selector, any u32 id/generation); current state: each of the 6 kinds in turn (concrete loop), selector, any u32" bound="palette above; 1-byte strings; unwind 8"
//@ harness: name=call_merge_idempotent_ca_scalar props=C07 tier=thorough core=0 cap=1200 cost=60 sym="previous state: scalar (peer/CID selector, any u32 id/generation); current state: each of the 6 kinds in turn (concrete loop), selector, any u32" bound="palette above; 1-byte strings; unwind 8"
//@ harness: name=call_merge_idempotent_ca_stream props=C07 tier=thorough core=0 cap=1200 cost=60 sym="previous state: stream (peer/CID selector, any u32 id/generation); current state: each of the 6 kinds in turn (concrete loop), selector, any u32" bound="palette above; 1-byte strings; unwind 8"
//@ harness: name=call_merge_idempotent_ca_unused props=C07 tier=thorough core=0 cap=1200 cost=60 sym="previous state: unused (peer/CID selector, any u32 id/generation); current state: each of the 6 kinds in turn (concrete loop), selector, any u32" bound="palette above; 1-byte strings; unwind 8"
//@ harness: name=call_merge_idempotent_ca_failed props=C07 tier=thorough core=0 cap=1200 cost=60 sym="previous state: failed (peer/CID selector, any u32 id/generation); current state: each of the 6 kinds in turn (concrete loop), selector, any u32" bound="palette above; 1-byte strings; unwind 8"
//@ harness: name=call_merge_idempotent_cc_req props=C07 tier=thorough core=0 cap=1200 cost=60 sym="previous state: req (peer/CID selector, any u32 id/generation); current state: each of the 6 kinds in turn (concrete loop), selector, any u32" bound="palette above; 1-byte strings; unwind 8"
//@ harness: name=call_merge_idempotent_cc_reqid props=C07 tier=thorough core=0 cap=1200 cost=60 sym="previous state: reqid (peer/CID selector, any u32 id/generation); current state: each of the 6 kinds in turn (concrete loop), selector, any u32" bound="palette above; 1-byte strings; unwind 8"
//@ harness: name=call_merge_idempotent_cc_scalar props=C07 tier=thorough core=0 cap=1200 cost=60 sym="previous state: scalar (peer/CID selector, any u32 id/generation); current state: each of the 6 kinds in turn (concrete loop), selector, any u32" bound="palette above; 1-byte strings; unwind 8"
//@ harness: name=call_merge_idempotent_cc_stream props=C07 tier=thorough core=0 cap=1200 cost=60 sym="previous state: stream (peer/CID selector, any u32 id/generation); current state: each of the 6 kinds in turn (concrete loop), selector, any u32" bound="palette above; 1-byte strings; unwind 8"
//@ harness: name=call_merge_idempotent_cc_unused props=C07 tier=thorough core=0 cap=1200 cost=60 sym="previous state: unused (peer/CID selector, any u32 id/generation); current state: each of the 6 kinds in turn (concrete loop), selector, any u32" bound="palette above; 1-byte strings; unwind 8"
//@ harness: name=call_merge_idempotent_cc_failed props=C07 tier=thorough core=0 cap=1200 cost=60 sym="previous state: failed (peer/CID selector, any u32 id/generation); current state: each of the 6 kinds in turn (concrete loop), selector, any u32" bound="palette above; 1-byte strings; unwind 8"
//@ harness: name=call_merge_symmetric_req props=C08 tier=thorough core=0 cap=1200 cost=60 sym="previous state: req (peer/CID selector, any u32 id/generation); current state: each of the 6 kinds in turn (concrete loop), selector, any u32" bound="palette above; 1-byte strings; unwind 8"
//@ harness: name=call_merge_symmetric_reqid props=C08 tier=thorough core=0 cap=1200 cost=60 sym="previous state: reqid (peer/CID selector, any u32 id/generation); current state: each of the 6 kinds in turn (concrete loop), selector, any u32" bound="palette above; 1-byte strings; unwind 8"
//@ harness: name=call_merge_symmetric_scalar props=C08 tier=thorough core=0 cap=1200 cost=60 sym="previous state: scalar (peer/CID selector, any u32 id/generation); current state: each of the 6 kinds in turn (concrete loop), selector, any u32" bound="palette above; 1-byte strings; unwind 8"
//@ harness: name=call_merge_symmetric_stream props=C08 tier=thorough core=0 cap=1200 cost=60 sym="previous state: stream (peer/CID selector, any u32 id/generation); current state: each of the 6 kinds in turn (concrete loop), selector, any u32" bound="palette above; 1-byte strings; unwind 8"
//@ harness: name=call_merge_symmetric_unused props=C08 tier=thorough core=0 cap=1200 cost=60 sym="previous state: unused (peer/CID selector, any u32 id/generation); current state: each of the 6 kinds in turn (concrete loop), selector, any u32" bound="palette above; 1-byte strings; unwind 8"
//@ harness: name=call_merge_symmetric_failed props=C08 tier=thorough core=0 cap=1200 cost=60 sym="previous state: failed (peer/CID selector, any u32 id/generation); current state: each of the 6 kinds in turn (concrete loop), selector, any u32" bound="palette above; 1-byte strings; unwind 8"
//@ harness: name=call_merge_algebra_glue props=C07,C08 cap=300 cost=5 sym="three state descriptors (kind, selector, number): any" bound="pure logic over the characterisation proved by the never_lost (result == winning input) and accepts_honest (accepted iff honest) harnesses"
//@ harness: name=call_merge_associative props=C08 tier=thorough core=0 cap=3000 cost=900 sym="three states a,b,c: any kind, selector, any u32" bound="as above"
//@ harness: name=call_merge_vacuity props=C05,C09,C04,C14,C07,C08 expect=fail cap=900 cost=120 sym="both states any kind" bound="as above"

use super::*;
use air_interpreter_cid::CID;
use std::rc::Rc;

fn fmt_stub(_: std::fmt::Arguments<'_>) -> String {
    String::new()
}

#[derive(Clone, Copy)]
struct Sel {
    kind: u8,
    pick: bool,
    n: u32,
}

/// a state of the given (concrete) kind with symbolic selector and number
fn sel_of_kind(kind: u8) -> Sel {
    Sel {
        kind,
        pick: kani::any(),
        n: kani::any(),
    }
}

fn any_sel() -> Sel {
    let kind: u8 = kani::any();
    kani::assume(kind < 6);
    Sel {
        kind,
        pick: kani::any(),
        n: kani::any(),
    }
}

fn mk(s: Sel) -> CallResult {
    let name = if s.pick { "p" } else { "q" };
    let cid = if s.pick { "a" } else { "b" };
    match s.kind {
        0 => CallResult::sent_peer_id(Rc::new(name.to_string())),
        1 => CallResult::sent_peer_id_with_call_id(Rc::new(name.to_string()), s.n),
        2 => CallResult::executed_scalar(CID::new(cid)),
        3 => CallResult::Executed(ValueRef::Stream {
            cid: CID::new(cid),
            generation: (s.n as usize).into(),
        }),
        4 => CallResult::executed_unused(CID::new(cid)),
        _ => CallResult::failed(CID::new(cid)),
    }
}

/// `*x == mk(s)` without running the drop glue of the temporary (its variant is symbolic)
fn eq_mk(x: &CallResult, s: Sel) -> bool {
    let t = mk(s);
    let r = *x == t;
    std::mem::forget(t);
    r
}

fn is_request(s: Sel) -> bool {
    s.kind <= 1
}

/// same result up to the stream generation
fn same_result(a: Sel, b: Sel) -> bool {
    !is_request(a) && a.kind == b.kind && a.pick == b.pick && (a.kind == 3 || a.kind == 5 || a.kind == 2 || a.kind == 4)
}

/// `r` carries exactly the result described by `s` (generation is the previous side's, checked separately)
fn carries(r: &CallResult, s: Sel) -> bool {
    let cid = if s.pick { "a" } else { "b" };
    match (r, s.kind) {
        (CallResult::Executed(ValueRef::Scalar(c)), 2) => &*c.get_inner() == cid,
        (CallResult::Executed(ValueRef::Stream { cid: c, .. }), 3) => &*c.get_inner() == cid,
        (CallResult::Executed(ValueRef::Unused(c)), 4) => &*c.get_inner() == cid,
        (CallResult::Failed(c), 5) => &*c.get_inner() == cid,
        _ => false,
    }
}

fn call_merge_result_never_lost_body(a: Sel, b: Sel) {
    let r = merge_call_results(mk(a), mk(b));
    if let Ok((merged, scheme)) = &r {
        if !is_request(a) {
            kani::assert(carries(merged, a), "C05/C09: the previous result survives the merge");
        }
        if !is_request(b) {
            kani::assert(carries(merged, b), "C05/C09: the current result survives the merge");
        }
        if is_request(a) && is_request(b) {
            kani::assert(eq_mk(merged, a), "C05/C06: two pending requests keep the previous one (sender and call id)");
            kani::assert(matches!(scheme, PreparationScheme::Previous), "C05: value source is previous");
        }
        if is_request(a) && !is_request(b) {
            kani::assert(eq_mk(merged, b) && matches!(scheme, PreparationScheme::Current), "C05/C09: current result taken as is");
        }
        if !is_request(a) {
            kani::assert(eq_mk(merged, a), "C05/C09/C12: previous state kept as is (generation included)");
            kani::assert(!matches!(scheme, PreparationScheme::Current), "C05: value source is previous or both");
            // the scheme decides which position maps are filled: a result present in BOTH data must be findable
            // from its current-data position too (fold lore of current data is looked up through it)
            // Executed results on both sides are mapped to both data (their positions are looked up by folds over
            // the stream they feed); a failed call is no stream value: the code maps Failed/Failed to previous only
            kani::assert(matches!(scheme, PreparationScheme::Both) == (!is_request(b) && a.kind != 5), "C13/C09: executed results on both sides are mapped to both data, everything else kept from previous to previous only");
        }
    }
    kani::cover!(r.is_ok() && !is_request(b), "merged with a current result");
    kani::cover!(r.is_ok() && is_request(b), "merged with a current request");
    kani::cover!(r.is_err() || is_request(a), "a rejected pair exists (unless previous is a request, which merges with everything)");
    std::mem::forget(r);
}

fn call_merge_accepts_honest_rejects_forged_body(a: Sel, b: Sel) {
    let r = merge_call_results(mk(a), mk(b));
    let honest = is_request(a) || is_request(b) || same_result(a, b);
    kani::assert(r.is_ok() == honest, "C04/C14: accepted iff a request is involved or both sides carry the same result");
    kani::cover!(r.is_ok() && (a.kind != 3 || (b.kind == 3 && a.n != b.n)), "accepted (for streams: with different generations)");
    kani::cover!(is_request(a) || (r.is_err() && a.pick == b.pick && !is_request(b)), "same CID under another kind rejected");
    std::mem::forget(r);
}

/// which input the merged state equals (proved by call_merge_result_never_lost)
fn winner(a: Sel, b: Sel) -> Sel {
    if !is_request(a) {
        a
    } else if !is_request(b) {
        b
    } else {
        a
    }
}

/// variant 0: merge(c, b); 1: merge(c, a); 2: merge(c, c)  where c = merge(a, b)
fn idempotent_body(variant: u8, a: Sel, b: Sel) {
    let r = merge_call_results(mk(a), mk(b));
    if let Ok((c, _)) = r {
        let expected = mk(winner(a, b));
        kani::assert(c == expected, "C07: merged state is the winning input");
        let again = match variant {
            0 => merge_call_results(c, mk(b)),
            1 => merge_call_results(c, mk(a)),
            _ => merge_call_results(c, mk(winner(a, b))),
        };
        kani::assert(matches!(&again, Ok((x, _)) if *x == expected), "C07: re-merging merged data with an input (or itself) changes nothing");
        kani::cover!(again.is_ok(), "re-merge succeeded");
        std::mem::forget(again);
        std::mem::forget(expected);
    } else {
        std::mem::forget(r);
    }
}

/// equal knowledge: same result kind and CID (generation/sender may differ), or both still pending
fn same_knowledge(x: &CallResult, y: &CallResult) -> bool {
    use CallResult::*;
    match (x, y) {
        (RequestSentBy(_), RequestSentBy(_)) => true,
        (Failed(c1), Failed(c2)) => c1 == c2,
        (Executed(ValueRef::Scalar(c1)), Executed(ValueRef::Scalar(c2))) => c1 == c2,
        (Executed(ValueRef::Unused(c1)), Executed(ValueRef::Unused(c2))) => c1 == c2,
        (Executed(ValueRef::Stream { cid: c1, .. }), Executed(ValueRef::Stream { cid: c2, .. })) => c1 == c2,
        _ => false,
    }
}

fn call_merge_symmetric_body(a: Sel, b: Sel) {
    let ab = merge_call_results(mk(a), mk(b));
    let ba = merge_call_results(mk(b), mk(a));
    kani::assert(ab.is_ok() == ba.is_ok(), "C08: acceptance does not depend on the order");
    if let (Ok((x, _)), Ok((y, _))) = (&ab, &ba) {
        kani::assert(same_knowledge(x, y), "C08: same result (kind, CID) whatever the order");
    }
    kani::cover!(ab.is_ok(), "merge succeeded");
    std::mem::forget(ab);
    std::mem::forget(ba);
}

#[kani::proof]
#[kani::unwind(4)]
#[kani::stub(alloc::fmt::format, fmt_stub)]
fn call_merge_associative() {
    let (a, b, c) = (any_sel(), any_sel(), any_sel());
    let left = merge_call_results(mk(a), mk(b)).and_then(|(ab, _)| merge_call_results(ab, mk(c)));
    let right = merge_call_results(mk(b), mk(c)).and_then(|(bc, _)| merge_call_results(mk(a), bc));
    kani::assert(left.is_ok() == right.is_ok(), "C08: acceptance does not depend on grouping");
    if let (Ok((x, _)), Ok((y, _))) = (&left, &right) {
        kani::assert(same_knowledge(x, y), "C08: same result whatever the grouping");
    }
    kani::cover!(left.is_ok(), "merge succeeded");
    std::mem::forget(left);
    std::mem::forget(right);
}

#[kani::proof]
#[kani::unwind(4)]
#[kani::stub(alloc::fmt::format, fmt_stub)]
fn call_merge_vacuity() {
    let (a, b) = (any_sel(), any_sel());
    let r = merge_call_results(mk(a), mk(b));
    if r.is_ok() && !is_request(a) && !is_request(b) {
        kani::assert(false, "vacuity twin: two results merged is reachable");
    }
    std::mem::forget(r);
}

/// structural equality of the states two descriptors build
fn same_state(x: Sel, y: Sel) -> bool {
    x.kind == y.kind && x.pick == y.pick && (!(x.kind == 1 || x.kind == 3) || x.n == y.n)
}

fn honest(a: Sel, b: Sel) -> bool {
    is_request(a) || is_request(b) || same_result(a, b)
}

fn same_knowledge_sel(x: Sel, y: Sel) -> bool {
    (is_request(x) && is_request(y)) || (!is_request(x) && x.kind == y.kind && x.pick == y.pick)
}

/// Pure consequences of: merge(a,b) is Ok iff honest(a,b), and then equals mk(winner(a,b)).
#[kani::proof]
fn call_merge_algebra_glue() {
    let (a, b, c) = (any_sel(), any_sel(), any_sel());
    if honest(a, b) {
        let w = winner(a, b);
        // idempotence (C07): merge(w, b), merge(w, a), merge(w, w) are accepted and give w again
        kani::assert(honest(w, b) && same_state(winner(w, b), w), "C07: merge(c, b) == c");
        kani::assert(honest(w, a) && same_state(winner(w, a), w), "C07: merge(c, a) == c");
        kani::assert(honest(w, w) && same_state(winner(w, w), w), "C07: merge(c, c) == c");
    }
    // symmetry (C08)
    kani::assert(honest(a, b) == honest(b, a), "C08: acceptance does not depend on the order");
    if honest(a, b) {
        kani::assert(same_knowledge_sel(winner(a, b), winner(b, a)), "C08: same result (kind, CID) whatever the order");
    }
    // associativity (C08)
    let left = honest(a, b) && honest(winner(a, b), c);
    let right = honest(b, c) && honest(a, winner(b, c));
    kani::assert(left == right, "C08: acceptance does not depend on grouping");
    if left {
        kani::assert(same_knowledge_sel(winner(winner(a, b), c), winner(a, winner(b, c))), "C08: same result whatever the grouping");
    }
    kani::cover!(left && !is_request(a) && !is_request(c), "three-way merge of results");
}

macro_rules! per_kind {
    ($($name:ident => $body:expr, $kind:expr;)*) => {
        $(
            #[kani::proof]
            #[kani::unwind(8)]
            #[kani::stub(alloc::fmt::format, fmt_stub)]
            fn $name() {
                // previous kind fixed per harness, current kind enumerated by a concrete loop: every variant
                // is concrete when the merger runs, only selectors and numbers are symbolic
                let a = sel_of_kind($kind);
                let mut kb = 0u8;
                while kb < 6 {
                    $body(a, sel_of_kind(kb));
                    kb += 1;
                }
            }
        )*
    };
}

fn idem_cb(a: Sel, b: Sel) {
    idempotent_body(0, a, b)
}
fn idem_ca(a: Sel, b: Sel) {
    idempotent_body(1, a, b)
}
fn idem_cc(a: Sel, b: Sel) {
    idempotent_body(2, a, b)
}

per_kind! {
    call_merge_result_never_lost_req => call_merge_result_never_lost_body, 0;
    call_merge_result_never_lost_reqid => call_merge_result_never_lost_body, 1;
    call_merge_result_never_lost_scalar => call_merge_result_never_lost_body, 2;
    call_merge_result_never_lost_stream => call_merge_result_never_lost_body, 3;
    call_merge_result_never_lost_unused => call_merge_result_never_lost_body, 4;
    call_merge_result_never_lost_failed => call_merge_result_never_lost_body, 5;
    call_merge_accepts_honest_rejects_forged_req => call_merge_accepts_honest_rejects_forged_body, 0;
    call_merge_accepts_honest_rejects_forged_reqid => call_merge_accepts_honest_rejects_forged_body, 1;
    call_merge_accepts_honest_rejects_forged_scalar => call_merge_accepts_honest_rejects_forged_body, 2;
    call_merge_accepts_honest_rejects_forged_stream => call_merge_accepts_honest_rejects_forged_body, 3;
    call_merge_accepts_honest_rejects_forged_unused => call_merge_accepts_honest_rejects_forged_body, 4;
    call_merge_accepts_honest_rejects_forged_failed => call_merge_accepts_honest_rejects_forged_body, 5;
    call_merge_idempotent_cb_req => idem_cb, 0;
    call_merge_idempotent_cb_reqid => idem_cb, 1;
    call_merge_idempotent_cb_scalar => idem_cb, 2;
    call_merge_idempotent_cb_stream => idem_cb, 3;
    call_merge_idempotent_cb_unused => idem_cb, 4;
    call_merge_idempotent_cb_failed => idem_cb, 5;
    call_merge_idempotent_ca_req => idem_ca, 0;
    call_merge_idempotent_ca_reqid => idem_ca, 1;
    call_merge_idempotent_ca_scalar => idem_ca, 2;
    call_merge_idempotent_ca_stream => idem_ca, 3;
    call_merge_idempotent_ca_unused => idem_ca, 4;
    call_merge_idempotent_ca_failed => idem_ca, 5;
    call_merge_idempotent_cc_req => idem_cc, 0;
    call_merge_idempotent_cc_reqid => idem_cc, 1;
    call_merge_idempotent_cc_scalar => idem_cc, 2;
    call_merge_idempotent_cc_stream => idem_cc, 3;
    call_merge_idempotent_cc_unused => idem_cc, 4;
    call_merge_idempotent_cc_failed => idem_cc, 5;
    call_merge_symmetric_req => call_merge_symmetric_body, 0;
    call_merge_symmetric_reqid => call_merge_symmetric_body, 1;
    call_merge_symmetric_scalar => call_merge_symmetric_body, 2;
    call_merge_symmetric_stream => call_merge_symmetric_body, 3;
    call_merge_symmetric_unused => call_merge_symmetric_body, 4;
    call_merge_symmetric_failed => call_merge_symmetric_body, 5;
}
