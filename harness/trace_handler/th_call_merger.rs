//@ module: th_call_merger
//@ crate: air-trace-handler
//@ attach: crates/air-lib/trace-handler/src/merger/call_merger.rs
//@ functions: merge_call_results; merge_executed; are_scalars_equal; are_streams_equal; check_equal; <CallResult as PartialEq>::eq
//@ assumes: state palette: RequestSentBy(PeerId p|q), RequestSentBy(PeerIdWithCallId{p|q, any u32}), Executed(Scalar a|b), Executed(Stream{a|b, any generation u32}), Executed(Unused a|b), Failed(a|b): every CallResult variant, 2 peers, 2 CIDs (1-byte strings), all u32 ids/generations
//@ stubs: alloc::fmt::format -> empty String (error values built on reject paths carry messages only)
//@ decides: C05/C09: a recorded result (Executed/Failed) is never replaced by a request and survives every successful merge unchanged in kind and CID; two requests keep the previous one
//@ decides: C04: honest pairs (equal results, or a request on either side) are never rejected
//@ decides: C14: two results merge only if they have the same kind and CID (stream generations may differ); everything else is rejected
//@ decides: C07: merge is idempotent on its own output; C08: merge outcome is symmetric up to sender / generation
//@ outside: whole-trace merging through sliders and FSMs (DESIGN.md 2.2); CID computation (hashing)
//@ harness: name=call_merge_result_never_lost props=C05,C09,C06 cap=900 cost=120 sym="both states: kind (6 variants), peer/CID selector, any u32 call id / generation" bound="palette above; strings of 1 byte; unwind 4"
//@ harness: name=call_merge_accepts_honest_rejects_forged props=C04,C14 cap=900 cost=120 sym="as above" bound="as above"
//@ harness: name=call_merge_idempotent_cb props=C07 cap=1800 cost=200 sym="as above" bound="as above"
//@ harness: name=call_merge_idempotent_ca props=C07 cap=1800 cost=200 sym="as above" bound="as above"
//@ harness: name=call_merge_idempotent_cc props=C07 cap=1800 cost=200 sym="as above" bound="as above"
//@ harness: name=call_merge_symmetric props=C08 cap=1200 cost=200 sym="as above" bound="as above"
//@ harness: name=call_merge_associative props=C08 tier=thorough core=0 cap=3000 cost=900 sym="three states a,b,c as above" bound="as above"
//@ harness: name=call_merge_vacuity props=C05,C09,C04,C14,C07,C08 expect=fail cap=900 cost=120 sym="as above" bound="as above"

use super::*;
use air_interpreter_cid::CID;
use std::rc::Rc;

fn fmt_stub(_: std::fmt::Arguments<'_>) -> String {
    String::new()
}

#[derive(Clone, Copy)]
struct Sel {
    kind: u8,
    pick: bool,
    n: u32,
}

fn any_sel() -> Sel {
    let kind: u8 = kani::any();
    kani::assume(kind < 6);
    Sel {
        kind,
        pick: kani::any(),
        n: kani::any(),
    }
}

fn mk(s: Sel) -> CallResult {
    let name = if s.pick { "p" } else { "q" };
    let cid = if s.pick { "a" } else { "b" };
    match s.kind {
        0 => CallResult::sent_peer_id(Rc::new(name.to_string())),
        1 => CallResult::sent_peer_id_with_call_id(Rc::new(name.to_string()), s.n),
        2 => CallResult::executed_scalar(CID::new(cid)),
        3 => CallResult::Executed(ValueRef::Stream {
            cid: CID::new(cid),
            generation: (s.n as usize).into(),
        }),
        4 => CallResult::executed_unused(CID::new(cid)),
        _ => CallResult::failed(CID::new(cid)),
    }
}

/// `*x == mk(s)` without running the drop glue of the temporary (its variant is symbolic)
fn eq_mk(x: &CallResult, s: Sel) -> bool {
    let t = mk(s);
    let r = *x == t;
    std::mem::forget(t);
    r
}

fn is_request(s: Sel) -> bool {
    s.kind <= 1
}

/// same result up to the stream generation
fn same_result(a: Sel, b: Sel) -> bool {
    !is_request(a) && a.kind == b.kind && a.pick == b.pick && (a.kind == 3 || a.kind == 5 || a.kind == 2 || a.kind == 4)
}

/// `r` carries exactly the result described by `s` (generation is the previous side's, checked separately)
fn carries(r: &CallResult, s: Sel) -> bool {
    let cid = if s.pick { "a" } else { "b" };
    match (r, s.kind) {
        (CallResult::Executed(ValueRef::Scalar(c)), 2) => &*c.get_inner() == cid,
        (CallResult::Executed(ValueRef::Stream { cid: c, .. }), 3) => &*c.get_inner() == cid,
        (CallResult::Executed(ValueRef::Unused(c)), 4) => &*c.get_inner() == cid,
        (CallResult::Failed(c), 5) => &*c.get_inner() == cid,
        _ => false,
    }
}

#[kani::proof]
#[kani::unwind(4)]
#[kani::stub(alloc::fmt::format, fmt_stub)]
fn call_merge_result_never_lost() {
    let (a, b) = (any_sel(), any_sel());
    let r = merge_call_results(mk(a), mk(b));
    if let Ok((merged, scheme)) = &r {
        if !is_request(a) {
            kani::assert(carries(merged, a), "C05/C09: the previous result survives the merge");
        }
        if !is_request(b) {
            kani::assert(carries(merged, b), "C05/C09: the current result survives the merge");
        }
        if is_request(a) && is_request(b) {
            kani::assert(eq_mk(merged, a), "C05/C06: two pending requests keep the previous one (sender and call id)");
            kani::assert(matches!(scheme, PreparationScheme::Previous), "C05: value source is previous");
        }
        if is_request(a) && !is_request(b) {
            kani::assert(eq_mk(merged, b) && matches!(scheme, PreparationScheme::Current), "C05/C09: current result taken as is");
        }
        if !is_request(a) {
            kani::assert(eq_mk(merged, a), "C05/C09/C12: previous state kept as is (generation included)");
            kani::assert(!matches!(scheme, PreparationScheme::Current), "C05: value source is previous or both");
        }
    }
    kani::cover!(r.is_ok() && !is_request(a) && !is_request(b), "two results merged");
    kani::cover!(r.is_ok() && is_request(a) && !is_request(b), "request replaced by result");
    kani::cover!(r.is_err(), "rejected pair exists");
    std::mem::forget(r);
}

#[kani::proof]
#[kani::unwind(4)]
#[kani::stub(alloc::fmt::format, fmt_stub)]
fn call_merge_accepts_honest_rejects_forged() {
    let (a, b) = (any_sel(), any_sel());
    let r = merge_call_results(mk(a), mk(b));
    let honest = is_request(a) || is_request(b) || same_result(a, b);
    kani::assert(r.is_ok() == honest, "C04/C14: accepted iff a request is involved or both sides carry the same result");
    kani::cover!(r.is_ok() && a.kind == 3 && b.kind == 3 && a.n != b.n, "stream results with different generations merge");
    kani::cover!(r.is_err() && a.kind == 2 && b.kind == 3 && a.pick == b.pick, "scalar vs stream of the same CID rejected");
    std::mem::forget(r);
}

/// which input the merged state equals (proved by call_merge_result_never_lost)
fn winner(a: Sel, b: Sel) -> Sel {
    if !is_request(a) {
        a
    } else if !is_request(b) {
        b
    } else {
        a
    }
}

/// variant 0: merge(c, b); 1: merge(c, a); 2: merge(c, c)  where c = merge(a, b)
fn idempotent_body(variant: u8) {
    let (a, b) = (any_sel(), any_sel());
    let r = merge_call_results(mk(a), mk(b));
    if let Ok((c, _)) = r {
        let expected = mk(winner(a, b));
        kani::assert(c == expected, "C07: merged state is the winning input");
        let again = match variant {
            0 => merge_call_results(c, mk(b)),
            1 => merge_call_results(c, mk(a)),
            _ => merge_call_results(c, mk(winner(a, b))),
        };
        kani::assert(matches!(&again, Ok((x, _)) if *x == expected), "C07: re-merging merged data with an input (or itself) changes nothing");
        kani::cover!(again.is_ok(), "re-merge succeeded");
        std::mem::forget(again);
        std::mem::forget(expected);
    } else {
        std::mem::forget(r);
    }
}

#[kani::proof]
#[kani::unwind(4)]
#[kani::stub(alloc::fmt::format, fmt_stub)]
fn call_merge_idempotent_cb() {
    idempotent_body(0);
}

#[kani::proof]
#[kani::unwind(4)]
#[kani::stub(alloc::fmt::format, fmt_stub)]
fn call_merge_idempotent_ca() {
    idempotent_body(1);
}

#[kani::proof]
#[kani::unwind(4)]
#[kani::stub(alloc::fmt::format, fmt_stub)]
fn call_merge_idempotent_cc() {
    idempotent_body(2);
}

/// equal knowledge: same result kind and CID (generation/sender may differ), or both still pending
fn same_knowledge(x: &CallResult, y: &CallResult) -> bool {
    use CallResult::*;
    match (x, y) {
        (RequestSentBy(_), RequestSentBy(_)) => true,
        (Failed(c1), Failed(c2)) => c1 == c2,
        (Executed(ValueRef::Scalar(c1)), Executed(ValueRef::Scalar(c2))) => c1 == c2,
        (Executed(ValueRef::Unused(c1)), Executed(ValueRef::Unused(c2))) => c1 == c2,
        (Executed(ValueRef::Stream { cid: c1, .. }), Executed(ValueRef::Stream { cid: c2, .. })) => c1 == c2,
        _ => false,
    }
}

#[kani::proof]
#[kani::unwind(4)]
#[kani::stub(alloc::fmt::format, fmt_stub)]
fn call_merge_symmetric() {
    let (a, b) = (any_sel(), any_sel());
    let ab = merge_call_results(mk(a), mk(b));
    let ba = merge_call_results(mk(b), mk(a));
    kani::assert(ab.is_ok() == ba.is_ok(), "C08: acceptance does not depend on the order");
    if let (Ok((x, _)), Ok((y, _))) = (&ab, &ba) {
        kani::assert(same_knowledge(x, y), "C08: same result (kind, CID) whatever the order");
    }
    kani::cover!(ab.is_ok(), "merge succeeded");
    std::mem::forget(ab);
    std::mem::forget(ba);
}

#[kani::proof]
#[kani::unwind(4)]
#[kani::stub(alloc::fmt::format, fmt_stub)]
fn call_merge_associative() {
    let (a, b, c) = (any_sel(), any_sel(), any_sel());
    let left = merge_call_results(mk(a), mk(b)).and_then(|(ab, _)| merge_call_results(ab, mk(c)));
    let right = merge_call_results(mk(b), mk(c)).and_then(|(bc, _)| merge_call_results(mk(a), bc));
    kani::assert(left.is_ok() == right.is_ok(), "C08: acceptance does not depend on grouping");
    if let (Ok((x, _)), Ok((y, _))) = (&left, &right) {
        kani::assert(same_knowledge(x, y), "C08: same result whatever the grouping");
    }
    kani::cover!(left.is_ok(), "merge succeeded");
    std::mem::forget(left);
    std::mem::forget(right);
}

#[kani::proof]
#[kani::unwind(4)]
#[kani::stub(alloc::fmt::format, fmt_stub)]
fn call_merge_vacuity() {
    let (a, b) = (any_sel(), any_sel());
    let r = merge_call_results(mk(a), mk(b));
    if r.is_ok() && !is_request(a) && !is_request(b) {
        kani::assert(false, "vacuity twin: two results merged is reachable");
    }
    std::mem::forget(r);
}
