//@ module: th_lens_convolution
//@ crate: air-trace-handler
//@ attach: crates/air-lib/trace-handler/src/merger/fold_merger/fold_lore_resolver.rs
//@ functions: compute_lens_convolution; compute_before_lens; check_subtrace_lore; MergeCtx::try_get_generation
//@ stubs: <ExecutedState as Clone>::clone -> Par(0,0) (error payloads only); alloc::fmt::format -> empty String; <FoldResult as Clone>::clone is reached only on error paths building payloads
//@ assumes: a fold state with 2 lore entries; the number of subtrace descriptors of each entry is enumerated (0..=3, concrete loop), all positions / lengths are any u32; both entries point to Ap states whose generations are symbolic (same or different generation)
//@ decides: C01: resolving the subtrace lengths of a fold state from untrusted data never panics - entries that do not have exactly two descriptors are rejected, length sums that overflow u32 are rejected; C10/C04: for well-formed entries the cumulative lengths follow the documented convolution (per generation: before = own before + befores of later entries + last after; after = cumulative afters) and the total is the sum of all lengths
//@ outside: resolve_fold_lore's HashMap of resolved entries (hashbrown); more than 2 lore entries
//@ harness: name=c01_lens_convolution_total props=C01,C10,C04 panicfree=1 cap=1800 cost=300 sym="descriptor counts 0..=3 per entry (concrete loops); begin positions, lengths, value positions, generations: any u32" bound="2 lore entries; trace of 2 Ap states"

use super::*;
use air_interpreter_data::*;

fn fmt_stub(_: std::fmt::Arguments<'_>) -> String {
    String::new()
}
fn clone_stub(_s: &ExecutedState) -> ExecutedState {
    ExecutedState::par(0, 0)
}

fn descs(n: u8, lens: [u32; 3]) -> Vec<SubTraceDesc> {
    let mut v = Vec::with_capacity(3);
    let mut i = 0;
    while i < n {
        v.push(SubTraceDesc {
            begin_pos: kani::any::<u32>().into(),
            subtrace_len: lens[i as usize],
        });
        i += 1;
    }
    v
}

#[kani::proof]
#[kani::unwind(6)]
#[kani::stub(<air_interpreter_data::ExecutedState as std::clone::Clone>::clone, clone_stub)]
#[kani::stub(alloc::fmt::format, fmt_stub)]
fn c01_lens_convolution_total() {
    let (g0, g1): (u32, u32) = (kani::any(), kani::any());
    let ctx = MergeCtx::from_trace(
        vec![
            ExecutedState::Ap(ApResult::new((g0 as usize).into())),
            ExecutedState::Ap(ApResult::new((g1 as usize).into())),
        ]
        .into(),
    );
    let mut n0 = 0u8;
    while n0 <= 3 {
        let mut n1 = 0u8;
        while n1 <= 3 {
            let l0: [u32; 3] = kani::any();
            let l1: [u32; 3] = kani::any();
            let fold = FoldResult {
                lore: vec![
                    FoldSubTraceLore { value_pos: 0.into(), subtraces_desc: descs(n0, l0) },
                    FoldSubTraceLore { value_pos: 1.into(), subtraces_desc: descs(n1, l1) },
                ],
            };
            let r = compute_lens_convolution(&fold, &ctx);
            let total = l0[0] as u64 + l0[1] as u64 + l1[0] as u64 + l1[1] as u64;
            if n0 != 2 || n1 != 2 {
                kani::assert(r.is_err(), "C01: an entry without exactly two descriptors is rejected");
            } else {
                kani::assert(r.is_ok() == (total <= u32::MAX as u64), "C01/C04: accepted iff the lengths sum up within u32");
                if let Ok((count, lens)) = &r {
                    kani::assert(*count as u64 == total && lens.len() == 2, "C10: the fold covers the sum of all its subtraces");
                    if g0 == g1 {
                        // same generation: [b0 + b1 + (a0 + a1), a0] [b1 + (a0 + a1), a0 + a1]
                        kani::assert(lens[0].before_len as u64 == l0[0] as u64 + l1[0] as u64 + l0[1] as u64 + l1[1] as u64 && lens[0].after_len == l0[1], "C10: convolution, first entry of a generation");
                        kani::assert(lens[1].before_len as u64 == l1[0] as u64 + l0[1] as u64 + l1[1] as u64 && lens[1].after_len as u64 == l0[1] as u64 + l1[1] as u64, "C10: convolution, second entry of a generation");
                    } else {
                        kani::assert(lens[0].before_len as u64 == l0[0] as u64 + l0[1] as u64 && lens[0].after_len == l0[1], "C10: a generation of its own");
                        kani::assert(lens[1].before_len as u64 == l1[0] as u64 + l1[1] as u64 && lens[1].after_len == l1[1], "C10: a generation of its own");
                    }
                }
            }
            std::mem::forget(r);
            std::mem::forget(fold);
            n1 += 1;
        }
        n0 += 1;
    }
    kani::cover!(g0 == g1, "same generation");
    std::mem::forget(ctx);
}
