//@ module: th_par_fsm
//@ crate: air-trace-handler
//@ attach: crates/air-lib/trace-handler/src/state_automata/par_fsm.rs
//@ functions: ParFSM::from_left_started; ParFSM::left_completed; ParFSM::right_completed; ParFSM::prepare_sliders; par_fsm::state_handler::CtxStateHandler::prepare; CtxStateHandler::handle_subgraph_end; new_states_calculation::compute_new_states; compute_new_state; utils::update_ctx_states; CtxState::update_ctx_state; ParBuilder::from_keeper; ParBuilder::track; ParBuilder::build; StateInserter::from_keeper; StateInserter::insert; TraceSlider::set_position_and_len; TraceSlider::set_subtrace_len
//@ stubs: std::hash::RandomState::new -> fixed keys (the position maps are created, never used); alloc::fmt::format -> empty String
//@ assumes: previous and current traces are 5-entry placeholder traces; both sliders start at an arbitrary valid interval (position + len <= 5); each subgraph leaves each slider at an arbitrary valid interval (over-approximates any consumption / nested repositioning) and emits 0..=2 entries
//@ decides: C04/C01: from_left_started accepts exactly the par sizes that fit the remaining interval of their slider and never panics for any u32 sizes; C09: after the left / right subgraph both sliders sit exactly behind the recorded left / whole par subtrace whatever the subgraph consumed; C10/C08: the emitted Par state carries exactly the numbers of entries emitted by the left and right subgraph, independent of the sizes recorded in either input
//@ outside: traces longer than 5 entries; nesting (a nested par runs the same code on a sub-interval); interplay with the mergers
//@ harness: name=par_fsm_accepts_exactly_fitting props=C04,C01 panicfree=1 cap=900 cost=60 sym="slider intervals (pos,len) of both traces; prev/current ParResult presence and sizes: any u32" bound="5-entry traces"
//@ harness: name=par_fsm_repositions props=C09 cap=1800 cost=300 sym="slider intervals, par presence and sizes (any u32), the interval each subgraph leaves each slider at (arbitrary valid interval)" bound="5-entry traces, unwind 7"
//@ harness: name=par_fsm_vacuity props=C09 expect=fail cap=1800 cost=300 sym="same" bound="same"
//@ harness: name=par_fsm_counts_emitted_states props=C10,C08 cap=1800 cost=200 sym="par presence and sizes (any u32); entries emitted before (0..=2) and by each subgraph (0..=2)" bound="result trace <= 8 entries; sliders on whole 5-entry traces"

use super::*;
use crate::data_keeper::TraceSlider;

fn fmt_stub(_: std::fmt::Arguments<'_>) -> String {
    String::new()
}
fn random_state_stub() -> std::hash::RandomState {
    unsafe { std::mem::transmute::<(u64, u64), std::hash::RandomState>((0, 0)) }
}

const N: u32 = 5;

fn placeholder_trace(n: usize) -> Vec<ExecutedState> {
    let mut v = Vec::with_capacity(n);
    let mut i = 0;
    while i < n {
        v.push(ExecutedState::par(0, 0));
        i += 1;
    }
    v
}

fn any_interval(s: &mut TraceSlider) -> (u32, u32) {
    let (p, l): (u32, u32) = (kani::any(), kani::any());
    kani::assume(p <= N && l <= N && p + l <= N);
    let r = s.set_position_and_len(p.into(), l);
    kani::assume(r.is_ok());
    std::mem::forget(r);
    (p, l)
}

fn any_par() -> Option<ParResult> {
    if kani::any() {
        Some(ParResult::new(kani::any(), kani::any()))
    } else {
        None
    }
}

fn fits(par: Option<ParResult>, len: u32) -> bool {
    match par {
        None => true,
        Some(p) => p.left_size as u64 + p.right_size as u64 <= len as u64,
    }
}

fn pos_of(s: &TraceSlider) -> u32 {
    usize::from(s.position()) as u32
}

#[kani::proof]
#[kani::unwind(7)]
#[kani::stub(std::hash::RandomState::new, random_state_stub)]
#[kani::stub(alloc::fmt::format, fmt_stub)]
fn par_fsm_accepts_exactly_fitting() {
    let mut dk = DataKeeper::from_trace(placeholder_trace(N as usize).into(), placeholder_trace(N as usize).into());
    let (_, pl) = any_interval(dk.prev_slider_mut());
    let (_, cl) = any_interval(dk.current_slider_mut());
    let (pp, cp) = (any_par(), any_par());
    let r = ParFSM::from_left_started(MergerParResult { prev_par: pp, current_par: cp }, &mut dk);
    kani::assert(r.is_ok() == (fits(pp, pl) && fits(cp, cl)), "C04: a par is accepted iff its sizes fit the remaining interval");
    kani::cover!(r.is_ok() && pp.is_some() && cp.is_some(), "both pars accepted");
    kani::cover!(r.is_err(), "ill-fitting par rejected");
    std::mem::forget(r);
    std::mem::forget(dk);
}

/// Whatever a subgraph does to a slider (consume a part of its interval, run nested pars/folds that
/// re-position it) leaves it at some valid interval: over-approximated by an arbitrary valid interval.
fn perturb(s: &mut TraceSlider) {
    let _ = any_interval(s);
}

/// result trace of symbolic length without symbolic allocation: fixed storage of 8 placeholders, set_len(k)
fn result_trace_of_len(k: usize) -> air_interpreter_data::ExecutionTrace {
    let mut v = placeholder_trace(8);
    kani::assert(k <= 8, "harness: result trace capacity");
    unsafe { v.set_len(k) };
    v.into()
}

/// "emit k more entries": all entries are identical placeholders, so the trace is replaced by one that is k longer
fn emit(dk: &mut DataKeeper, k: u8) {
    let n = dk.result_trace.len() + k as usize;
    let old = std::mem::replace(&mut dk.result_trace, result_trace_of_len(n));
    std::mem::forget(old);
}

fn small(max: u8) -> u8 {
    let k: u8 = kani::any();
    kani::assume(k <= max);
    k
}

fn reposition_body(twin: bool) {
    let mut dk = DataKeeper::from_trace(placeholder_trace(N as usize).into(), placeholder_trace(N as usize).into());
    let (pp0, pl0) = any_interval(dk.prev_slider_mut());
    let (cp0, cl0) = any_interval(dk.current_slider_mut());
    let (pp, cp) = (any_par(), any_par());
    let r = ParFSM::from_left_started(MergerParResult { prev_par: pp, current_par: cp }, &mut dk);
    if let Ok(mut fsm) = r {
        let p = pp.unwrap_or_default();
        let c = cp.unwrap_or_default();
        kani::assert(pos_of(dk.prev_slider()) == pp0 && dk.prev_slider().subtrace_len() == p.left_size, "C09: left interval of previous data opened");
        kani::assert(pos_of(dk.current_slider()) == cp0 && dk.current_slider().subtrace_len() == c.left_size, "C09: left interval of current data opened");
        // the left subgraph consumes an arbitrary part of its interval (e.g. it is left early by an error caught by xor)
        perturb(dk.prev_slider_mut());
        perturb(dk.current_slider_mut());
        fsm.left_completed(&mut dk);
        kani::assert(pos_of(dk.prev_slider()) == pp0 + p.left_size, "C09: previous slider sits behind the left subtrace");
        kani::assert(dk.prev_slider().subtrace_len() == p.right_size, "C09: right interval of previous data opened");
        kani::assert(pos_of(dk.current_slider()) == cp0 + c.left_size, "C09: current slider sits behind the left subtrace");
        kani::assert(dk.current_slider().subtrace_len() == c.right_size, "C09: right interval of current data opened");
        perturb(dk.prev_slider_mut());
        perturb(dk.current_slider_mut());
        fsm.right_completed(&mut dk);
        kani::assert(pos_of(dk.prev_slider()) == pp0 + p.left_size + p.right_size, "C09: previous slider sits behind the whole par");
        kani::assert(dk.prev_slider().subtrace_len() == pl0 - p.left_size - p.right_size, "C09: rest of the previous interval restored");
        kani::assert(pos_of(dk.current_slider()) == cp0 + c.left_size + c.right_size, "C09: current slider sits behind the whole par");
        kani::assert(dk.current_slider().subtrace_len() == cl0 - c.left_size - c.right_size, "C09: rest of the current interval restored");
        kani::cover!(p.left_size == 2 && p.right_size == 1 && pl0 == 3, "left larger than right, tight interval");
        if twin {
            kani::assert(false, "vacuity twin");
        }
    } else {
        std::mem::forget(r);
    }
    std::mem::forget(dk);
}

#[kani::proof]
#[kani::unwind(7)]
#[kani::stub(std::hash::RandomState::new, random_state_stub)]
#[kani::stub(alloc::fmt::format, fmt_stub)]
fn par_fsm_repositions() {
    reposition_body(false);
}

#[kani::proof]
#[kani::unwind(7)]
#[kani::stub(std::hash::RandomState::new, random_state_stub)]
#[kani::stub(alloc::fmt::format, fmt_stub)]
fn par_fsm_vacuity() {
    reposition_body(true);
}

/// The Par state written at the end records exactly what the two subgraphs emitted.
#[kani::proof]
#[kani::unwind(10)]
#[kani::stub(std::hash::RandomState::new, random_state_stub)]
#[kani::stub(alloc::fmt::format, fmt_stub)]
fn par_fsm_counts_emitted_states() {
    let mut dk = DataKeeper::from_trace(placeholder_trace(N as usize).into(), placeholder_trace(N as usize).into());
    let (pp, cp) = (any_par(), any_par());
    let before = small(2);
    emit(&mut dk, before);
    let r = ParFSM::from_left_started(MergerParResult { prev_par: pp, current_par: cp }, &mut dk);
    if let Ok(mut fsm) = r {
        let (el, er) = (small(2), small(2));
        emit(&mut dk, el);
        fsm.left_completed(&mut dk);
        emit(&mut dk, er);
        fsm.right_completed(&mut dk);
        kani::assert(dk.result_trace.len() == before as usize + 1 + el as usize + er as usize, "C10: nothing else written");
        let written = dk.result_trace.get((before as u32).into());
        kani::assert(
            matches!(written, Some(ExecutedState::Par(pr)) if pr.left_size == el as u32 && pr.right_size == er as u32),
            "C10/C08: the par state records exactly the entries each subgraph emitted, whatever sizes the inputs recorded"
        );
        kani::cover!(el == 2 && er == 1 && before == 1, "emitted 2+1 after one earlier entry");
        kani::cover!(pp.is_some() && el as u32 != pp.unwrap_or_default().left_size, "emitted differs from recorded");
    } else {
        std::mem::forget(r);
    }
    std::mem::forget(dk);
}
