#!/usr/bin/env python3
"""Regenerates /verif/MANIFEST.json from lib/claims.py and the harness metadata, and validates it."""
import json, os, sys
ROOT = os.path.dirname(os.path.dirname(os.path.abspath(__file__)))
sys.path.insert(0, os.path.join(ROOT, 'lib'))
import vk, claims

def main():
    mods = vk.load_modules()
    props = [json.loads(l)['id'] for l in open(os.path.join(ROOT, 'properties.jsonl'))]
    checks, na = [], []
    for pid in props:
        quick = vk.select(mods, pid, 'quick')
        c = claims.CLAIMS.get(pid)
        if c and quick and not c.get('not_applicable'):
            entry = {
                'property_id': pid,
                'quick_cmd': 'bin/check %s --tier quick' % pid,
                'thorough_cmd': 'bin/check %s --tier thorough' % pid,
                'evidence_file': 'evidence/%s.json' % pid,
                'replay_cmd_template': 'bin/check %s --replay {path}' % pid,
                'engine': 'kani-cbmc',
                'level_claimed': {'category': 'model_checking', 'text': c['text'], 'design_ref': c.get('design_ref', 'DESIGN.md section 3, ' + pid)},
                'level_note': c['note'],
                'technique': c.get('technique', 'bounded model checking of the compiled repository functions (Kani 0.68 -> CBMC 6.11, CaDiCaL SAT): symbolic inputs, solver verdict over all values within the stated bounds, counterexamples replayed natively'),
            }
            checks.append(entry)
        else:
            reason = (c or {}).get('not_applicable') or claims.NA.get(pid) or 'no solver-decidable kernel built yet for this property (see DESIGN.md)'
            na.append({'property_id': pid, 'reason': reason})
    man = {
        'version': 1,
        'setup_cmd': './setup.sh',
        'hooks': {
            'guard': 'cfg(kani) (set only by cargo-kani; harness modules are attached to a scratch copy of /repo, never to /repo itself)',
            'enable': 'bin/check copies /repo\'s working tree to /var/tmp/aquavm-verif/<shard>/repo, appends `#[cfg(kani)] #[path=..] mod verif_kani_<m>;` to the file defining each kernel and runs cargo kani there',
            'baseline_off_cmd': 'bin/baseline.sh',
            'source_commits': [],
            'add_only': True,
        },
        'engines': [{'name': 'kani-cbmc', 'path': 'bin/check', 'serves_properties': [c['property_id'] for c in checks],
                     'kind_free_text': 'Kani 0.68.0 harnesses (harness/*/*.rs) compiled together with the real crates; CBMC 6.11.0 + CaDiCaL decide; lib/vk.py + lib/runner.py drive, classify, replay, write evidence'}],
        'checks': checks,
        'not_applicable': na,
        'notes': claims.NOTES,
    }
    out = os.path.join(ROOT, 'MANIFEST.json')
    json.dump(man, open(out, 'w'), indent=1)
    try:
        import jsonschema
        jsonschema.validate(man, json.load(open('/root/.vp/MANIFEST.schema.json')))
        print('MANIFEST.json valid: %d checks, %d not applicable' % (len(checks), len(na)))
    except ImportError:
        print('MANIFEST.json written (jsonschema not available): %d checks, %d not applicable' % (len(checks), len(na)))

if __name__ == '__main__':
    main()
