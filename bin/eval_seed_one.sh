#!/usr/bin/env bash
# usage: bin/eval_seed_one.sh <seed dir> <PROP> [check args...]
# Applies seeded/<dir>/patch.diff to /repo, runs the pinned baseline (guard off) and the property's
# check side by side, ALWAYS restores /repo.  Nothing is committed to /repo.
set -u
d=$(realpath "$1"); p=$2; shift 2
cd /verif
if ! git -C /repo diff --quiet; then echo "eval_seed_one: /repo has uncommitted changes, refusing"; exit 3; fi
restore() { git -C /repo checkout -- . ; }
trap restore EXIT
git -C /repo apply "$d/patch.diff" || { echo "patch does not apply"; exit 3; }
( bin/baseline.sh 2>&1 | grep -E "^baseline:|NOT PASSED" | head -5 > "$d/.baseline.out" ) &
out=$(bin/check "$p" --no-evidence "$@" 2>&1); rc=$?
wait
echo "== $(basename $d) $p exit=$rc  $(cat $d/.baseline.out | head -1)"
echo "$out" | grep -E "VIOLATION|INCONCLUSIVE|failed:|error:|^PASS|^KNOWN|deciding it again" | cut -c1-260
rm -f "$d/.baseline.out"
