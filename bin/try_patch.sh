#!/usr/bin/env bash
# usage: bin/try_patch.sh <patch.diff> <PROP> [<PROP> ...]
# Applies a seeded change to /repo, runs the given checks (quick tier, no evidence written),
# and ALWAYS restores /repo afterwards.  Prints one summary line per check.
set -u
patch=$(realpath "$1"); shift
cd /verif
if ! git -C /repo diff --quiet; then echo "try_patch: /repo has uncommitted changes, refusing"; exit 3; fi
restore() { git -C /repo checkout -- . ; git -C /repo clean -fdq -- air crates 2>/dev/null; }
trap restore EXIT
git -C /repo apply "$patch" || { echo "try_patch: patch does not apply"; exit 3; }
for p in "$@"; do
  out=$(bin/check "$p" --no-evidence ${TRY_ARGS:-} 2>&1); rc=$?
  echo "== $p exit=$rc"
  echo "$out" | grep -E "VIOLATION|INCONCLUSIVE|failed:|error:|^PASS|^KNOWN" | cut -c1-260
done
