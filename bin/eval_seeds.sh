#!/usr/bin/env bash
# usage: bin/eval_seeds.sh <seed-dir> "<props>" [only-filter]
# For one seeded change: pinned baseline with the patch (must still be 407/407), then the given checks.
set -u
d=$1; props=$2; only=${3:-}
cd /verif
echo "##### $d props=$props"
if ! git -C /repo diff --quiet; then echo "repo dirty"; exit 3; fi
git -C /repo apply $(realpath $d/patch.diff) || { echo "patch does not apply to current /repo"; exit 3; }
bin/baseline.sh | tail -1
git -C /repo checkout -- .
if [ -n "$only" ]; then export TRY_ARGS="--only $only"; else unset TRY_ARGS; fi
bin/try_patch.sh $d/patch.diff $props
