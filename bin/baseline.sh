#!/usr/bin/env bash
# Runs the repository's pinned test suite (guard off: no cfg(kani), no hooks) and checks that
# every test of BASELINE.json's stable_pass list passes.  Exit 0 iff all of them pass.
set -uo pipefail
cd /repo
export CARGO_NET_OFFLINE=true
OUT=$(mktemp)
rm -f /repo/target/nextest/pb/junit.xml
cargo nextest run --workspace --no-fail-fast --tool-config-file pb:/w/lib/nextest.toml --profile pb --test-threads 8 --offline >"$OUT" 2>&1 \
  || true
python3 - "$OUT" <<'PY'
import json, sys
import xml.etree.ElementTree as ET
base = json.load(open('/root/.vp/BASELINE.json'))['stable_pass']
passed = set()
try:
    root = ET.parse('/repo/target/nextest/pb/junit.xml').getroot()
    for tc in root.iter('testcase'):
        if tc.find('failure') is None and tc.find('error') is None and tc.find('skipped') is None:
            passed.add(tc.get('classname') + '::' + tc.get('name'))
except Exception as e:
    print('baseline: cannot read junit.xml:', e)
    print(open(sys.argv[1], errors='replace').read()[-3000:])
missing = [t for t in base if t not in passed]
print('baseline: %d/%d stable tests passed' % (len(base) - len(missing), len(base)))
for t in missing[:20]:
    print('  NOT PASSED:', t)
sys.exit(1 if missing else 0)
PY
rc=$?
rm -f "$OUT"
exit $rc
