#!/usr/bin/env bash
# Extra regression oracle (not the pinned baseline): the aquavm-air integration tests run against the
# native interpreter (feature air-test-utils/test_with_native_code); in the pinned baseline they are
# "always_fail" because the wasm build of the interpreter is absent.  Used when validating seeded
# changes and fix: commits.
cd /repo && CARGO_NET_OFFLINE=true cargo test --offline -p aquavm-air -p air-test-utils \
  --features air-test-utils/test_with_native_code --test test_module "$@" 2>&1 | tail -5
