#!/usr/bin/env bash
# usage: bin/confirm_seed.sh <worktree> <demo-file (relative to worktree/seeded)> <dest path in worktree> <cargo test args...>
# Confirms in the scratch worktree: demo passes on unchanged code, fails with seeded/patch.diff,
# and the native aquavm-air test module still passes with the patch.  Restores the worktree.
set -u
wt=$1; demo=$2; dest=$3; shift 3
cd "$wt" || exit 3
git checkout -q -- . ; cp "seeded/$demo" "$dest"
export CARGO_NET_OFFLINE=true
run() { cargo test --offline "$@" 2>&1 | grep -E "^test result|panicked|FAILED|error(\[|:)" | head -8; }
echo "--- demo on unchanged code (must pass)"; run "$@"
git apply seeded/patch.diff || { echo "patch does not apply"; exit 3; }
echo "--- demo with patch (must fail)"; run "$@"
if [ "${SKIP_NATIVE:-0}" != 1 ]; then
echo "--- native test_module with patch (must be 326 passed)"
cargo test --offline -p aquavm-air -p air-test-utils --features air-test-utils/test_with_native_code --test test_module 2>&1 | grep -E "^test result" | head -3
fi
git checkout -q -- . ; rm -f "$dest"
echo "--- restored: $(git status --short | grep -v seeded | wc -l) tracked changes"
