"""Per-property claim texts for MANIFEST.json (what the solver decides, what it does not)."""

NOTES = ("Technique family: solver-based checking of the real code. All verdicts are CBMC/CaDiCaL verdicts over goto programs that Kani "
         "compiles from /repo's current working tree on every run; nothing is sampled. Harness modules live in /verif/harness and are attached "
         "as child modules (cfg(kani)) to a scratch copy of /repo, so /repo carries no hooks. Bounds, stubs and assumptions of every harness are "
         "in the harness file header and copied into evidence. Genuine defects found and repaired are listed in known_findings.json.")

NA = {
    'C16': 'multi-peer histories compared with a reference evaluator; every anchored mechanism is a composite instruction executor over an ExecutionCtx whose symbolic execution does not finish within reach (DESIGN.md sections 2.3, 6)',
    'C18': 'xor/execute!/set_errors operate on an ExecutionCtx and build JSON error objects through BTreeMap and fmt; not encodable within reach (DESIGN.md section 6)',
    'C20': 'the only nondeterminism is the per-process SipHash key of std HashMap, which Kani cannot model (getrandom); every harness fixes the key, so a two-run comparison would compare a run with itself (DESIGN.md section 6)',
}

TB = ("Trusted base: Kani 0.68 codegen, CBMC 6.11 + CaDiCaL, Kani's memory model (allocation never fails), the stubs listed in evidence. "
      "Claim = the listed kernels only, within the listed bounds; the argument that the kernel obligations imply the history-level statement is written in DESIGN.md, not machine-checked.")

CLAIMS = {
    'C01': {
        'text': 'Panic-freedom (overflow, index, unwrap/expect, unreachable) of the trace-position / length / generation arithmetic and lookup kernels the interpreter runs on untrusted data, for ALL field values within the bounds; counterexamples are confirmed by native playback and, for defects, through execute_air (replay crate). Totality of the parser, pretty-printer, beautifier and of whole execute_air runs is outside the claim.',
        'note': TB,
    },
    'C09': {
        'text': 'Slider kernel: an accepted interval is handed out entry by entry, in order, exactly once, then None, for all positions and lengths; exactly the fitting intervals are accepted. Whole-trace preservation through a complete run is argued in DESIGN.md, not decided.',
        'note': TB,
    },
}
