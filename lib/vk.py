"""Solver-based checking of /repo with Kani/CBMC: overlay, runner, log parser, evidence.

See /verif/DESIGN.md section 1.  Every verdict comes from CBMC's SAT back end over
the goto program Kani compiles from /repo's *current working tree*.
"""
import fcntl, glob, hashlib, json, os, re, shlex, shutil, subprocess, sys, time
from concurrent.futures import ThreadPoolExecutor

VERIF = os.path.dirname(os.path.dirname(os.path.abspath(__file__)))
REPO = os.environ.get('VERIF_REPO', '/repo')
VENDOR = '/verif/.vendor'
CACHE = '/verif/.cache'
SCRATCH = '/var/tmp/aquavm-verif'
NSHARDS = int(os.environ.get('VERIF_SHARDS', '4'))
KANI_TOOLCHAIN = None  # cargo-kani selects its own pinned toolchain

# ----------------------------------------------------------------------------
# harness metadata
# ----------------------------------------------------------------------------

class Harness:
    def __init__(self, mod, kv):
        self.mod = mod
        self.name = kv['name']
        self.props = kv['props'].split(',')
        self.tier = kv.get('tier', 'quick')          # quick harnesses also run in thorough
        self.core = kv.get('core', '1') == '1'       # extension kernels: core=0
        self.cap = int(kv.get('cap', '300'))          # wall cap in seconds
        self.panicfree = kv.get('panicfree', '0') == '1'
        self.sym = kv.get('sym', '')
        self.bound = kv.get('bound', '')
        self.kernel = kv.get('kernel')
        self.expect = kv.get('expect', 'pass')       # pass | fail (vacuity twin: must FAIL)
        self.cost = float(kv.get('cost', '30'))
        self.solver = kv.get('solver')
        # native concrete playback only makes sense for harnesses without stubs of repository code and
        # without partially initialised contexts (Kani does not apply stubs in playback tests)
        self.playback = kv.get('playback', '0') == '1'
        self.trivial = kv.get('trivial', '0') == '1'   # concrete harness (no symbolic input)
        self.mem = float(kv.get('mem', '4'))           # measured peak resident memory of its CBMC process, GB

class Module:
    """One harness file == one child module attached to one repo source file."""
    def __init__(self, path):
        self.path = path
        self.meta = {}
        self.harnesses = []
        multi = {'functions': [], 'stubs': [], 'assumes': [], 'decides': [], 'outside': []}
        for line in open(path):
            m = re.match(r'//@\s*(\w+):\s*(.*)$', line.rstrip())
            if not m:
                continue
            k, v = m.group(1), m.group(2).strip()
            if k == 'harness':
                kv = dict(tok.split('=', 1) for tok in shlex.split(v))
                self.harnesses.append(Harness(self, kv))
            elif k in multi:
                multi[k].append(v)
            else:
                self.meta[k] = v
        self.module = self.meta.get('module') or os.path.splitext(os.path.basename(path))[0]
        self.crate = self.meta['crate']
        self.attach = self.meta['attach']
        self.functions = [f.strip() for l in multi['functions'] for f in l.split(';') if f.strip()]
        self.stubs = multi['stubs']
        self.assumes = multi['assumes']
        self.decides = multi['decides']
        self.outside = multi['outside']
        self.requires = [r.strip() for r in self.meta.get('requires', '').split(',') if r.strip()]

def load_modules():
    mods = []
    for p in sorted(glob.glob(os.path.join(VERIF, 'harness', '*', '*.rs'))):
        if os.path.basename(p).startswith('_'):
            continue  # shared include files
        mods.append(Module(p))
    return mods

def select(mods, prop, tier):
    out = []
    for m in mods:
        for h in m.harnesses:
            if prop in h.props and (h.tier == 'quick' or tier == 'thorough'):
                out.append(h)
    return out

# ----------------------------------------------------------------------------
# shards: (overlay dir, target dir) pairs guarded by a file lock
# ----------------------------------------------------------------------------

class Shard:
    def __init__(self, k, fd):
        self.k = k
        self.fd = fd
        self.dir = os.path.join(CACHE, 'shards', 's%d' % k)
        self.target = os.path.join(self.dir, 'target')
        self.state_file = os.path.join(self.dir, 'state.json')
        self.overlay = os.path.join(SCRATCH, 's%d' % k, 'repo')
        self.hdir = os.path.join(SCRATCH, 's%d' % k, 'harness')

    def release(self):
        shutil.rmtree(os.path.join(SCRATCH, 's%d' % self.k), ignore_errors=True)
        try:
            fcntl.flock(self.fd, fcntl.LOCK_UN)
            os.close(self.fd)
        except OSError:
            pass

def acquire_shards(want, wait=True):
    """Take up to `want` free shards (at least one; waits for one if none is free)."""
    os.makedirs(os.path.join(CACHE, 'shards'), exist_ok=True)
    got = []
    while True:
        for k in range(NSHARDS):
            if len(got) >= want:
                break
            if any(s.k == k for s in got):
                continue
            d = os.path.join(CACHE, 'shards', 's%d' % k)
            os.makedirs(d, exist_ok=True)
            fd = os.open(os.path.join(d, 'lock'), os.O_CREAT | os.O_RDWR)
            try:
                fcntl.flock(fd, fcntl.LOCK_EX | fcntl.LOCK_NB)
                got.append(Shard(k, fd))
            except OSError:
                os.close(fd)
        if got or not wait:
            return got
        time.sleep(2)

CARGO_CONFIG = """[net]
offline = true
retry = 0

[source.crates-io]
replace-with = "verif-vendor"

[source.verif-vendor]
directory = "%s"
""" % VENDOR

def sha(b):
    return hashlib.sha256(b).hexdigest()

def sync_overlay(shard, mods, extra_tests=None):
    """Copy /repo's working tree into the shard overlay and attach harness modules.

    mods: Module objects whose harness file is attached (as a child module) to the repo
    file that defines the kernel.  extra_tests: {module name: rust source appended to the
    harness copy} (concrete playback tests).
    """
    os.makedirs(shard.overlay, exist_ok=True)
    os.makedirs(shard.hdir, exist_ok=True)
    subprocess.run(['rsync', '-a', '--delete', '--exclude', '/target', '--exclude', '/.git',
                    '--exclude', '/.cargo/config.toml',
                    REPO + '/', shard.overlay + '/'], check=True)
    try:
        state = json.load(open(shard.state_file))
    except Exception:
        state = {}
    new_state = {}

    def put(path, content, key):
        """write content; keep the mtime of the previous identical content so that cargo's
        mtime fingerprints stay valid across runs (overlays are deleted after each run)."""
        h = sha(content)
        with open(path, 'wb') as f:
            f.write(content)
        old = state.get(key)
        if old and old['sha'] == h:
            os.utime(path, (old['mtime'], old['mtime']))
            new_state[key] = old
        else:
            mt = time.time()
            os.utime(path, (mt, mt))
            new_state[key] = {'sha': h, 'mtime': mt}

    os.makedirs(os.path.join(shard.overlay, '.cargo'), exist_ok=True)
    put(os.path.join(shard.overlay, '.cargo', 'config.toml'), CARGO_CONFIG.encode(), 'cargo-config')
    by_attach = {}
    for m in mods:
        by_attach.setdefault(m.attach, []).append(m)
    for attach, ms in sorted(by_attach.items()):
        src = os.path.join(REPO, attach)
        if not os.path.isfile(src):
            raise HarnessMismatch('attach point %s no longer exists' % attach)
        content = open(src, 'rb').read()
        if not content.endswith(b'\n'):
            content += b'\n'
        for m in sorted(ms, key=lambda m: m.module):
            hcopy = os.path.join(shard.hdir, m.module + '.rs')
            hsrc = open(m.path, 'rb').read()
            if extra_tests and m.module in extra_tests:
                hsrc += b'\n' + extra_tests[m.module].encode()
            put(hcopy, hsrc, 'h:' + m.module)
            content += ('#[cfg(kani)]\n#[path = "%s"]\n%s mod verif_kani_%s;\n' % (hcopy, m.meta.get('visibility', 'pub(crate)'), m.module)).encode()
        put(os.path.join(shard.overlay, attach), content, 'a:' + attach)
    # shared include files (harness/<dir>/_*.rs) are copied next to the harness copies
    for p in glob.glob(os.path.join(VERIF, 'harness', '*', '_*.rs')):
        put(os.path.join(shard.hdir, os.path.basename(p)), open(p, 'rb').read(), 'i:' + os.path.basename(p))
    os.makedirs(shard.dir, exist_ok=True)
    with open(shard.state_file, 'w') as f:
        json.dump(new_state, f)

class HarnessMismatch(Exception):
    pass

# ----------------------------------------------------------------------------
# running Kani
# ----------------------------------------------------------------------------

def kani_env():
    env = dict(os.environ)
    env['CARGO_NET_OFFLINE'] = 'true'
    env['RUSTFLAGS'] = '--cap-lints=warn'
    env.pop('RUSTUP_TOOLCHAIN', None)
    env.pop('CARGO_TARGET_DIR', None)
    return env

def run_kani(shard, crate, harnesses, logdir, jobs=1, playback=True, extra_args=(), memkb=None):
    """One `cargo kani` invocation for several harnesses of one crate.  Returns the path of
    the combined log.  Per-harness wall cap via --harness-timeout; the whole invocation is
    additionally bounded by `timeout` and an address-space limit."""
    os.makedirs(logdir, exist_ok=True)
    log = os.path.join(logdir, 'kani-%s-%s.log' % (crate, sha('|'.join(h.name for h in harnesses).encode())[:8]))
    cap = max(h.cap for h in harnesses)
    total = 600 + sum(h.cap for h in harnesses)
    cmd = ['cargo', 'kani', '-p', crate, '--target-dir', shard.target,
           '-Z', 'stubbing', '-Z', 'unstable-options', '--harness-timeout', '%ds' % cap]
    if playback:
        cmd += ['-Z', 'concrete-playback', '--concrete-playback=print']
    if jobs > 1:
        cmd += ['-j', str(jobs), '--output-into-files']
    for h in harnesses:
        cmd += ['--harness', 'verif_kani_%s::%s' % (h.mod.module, h.name)]
    cmd += list(extra_args)
    memkb = os.environ.get('VERIF_MEM_KB') or str(memkb or 24 * 1024 * 1024)
    sh = 'ulimit -v %s; exec timeout -k 10 %d %s' % (memkb, total, ' '.join(shlex.quote(c) for c in cmd))
    t0 = time.time()
    with open(log, 'w') as f:
        f.write('# ' + ' '.join(cmd) + '\n')
        f.flush()
        p = subprocess.run(['bash', '-c', sh], cwd=shard.overlay, env=kani_env(), stdout=f, stderr=subprocess.STDOUT)
    with open(log, 'a') as f:
        f.write('\n# exit=%d wall=%.1f\n' % (p.returncode, time.time() - t0))
    return log

# ----------------------------------------------------------------------------
# log parsing
# ----------------------------------------------------------------------------

CHECK_RE = re.compile(r'^Check (\d+): (.+?)\s*$')

class HarnessResult:
    def __init__(self, name):
        self.name = name
        self.checks = []      # dicts: id, status, description, location
        self.verification = None  # SUCCESSFUL | FAILED | None
        self.time_s = None
        self.solver_s = 0.0
        self.vccs = 0
        self.vccs_remaining = 0
        self.steps = 0
        self.expr_size = 0
        self.stubs = []
        self.playback = None
        self.timed_out = False
        self.errors = []

def parse_log(text):
    """Split a cargo-kani log into per-harness results."""
    res = {}
    compile_errors = []
    cur = None
    lines = text.splitlines()
    i = 0
    pending_stubs = []
    while i < len(lines):
        ln = lines[i]
        m = re.match(r'^Checking harness (\S+?)\.\.\.', ln)
        if m:
            cur = HarnessResult(m.group(1))
            res[cur.name] = cur
            i += 1
            continue
        if re.match(r'^error(\[E\d+\])?:', ln) or 'internal compiler error' in ln or 'Kani unexpectedly panicked' in ln:
            compile_errors.append('\n'.join(lines[i:i + 12]))
        if cur is None:
            i += 1
            continue
        m = CHECK_RE.match(ln)
        if m:
            chk = {'id': m.group(2), 'status': None, 'description': '', 'location': ''}
            j = i + 1
            while j < len(lines) and lines[j].startswith('\t'):
                s = lines[j].strip()
                if s.startswith('- Status:'):
                    chk['status'] = s.split(':', 1)[1].strip()
                elif s.startswith('- Description:'):
                    chk['description'] = s.split(':', 1)[1].strip().strip('"')
                elif s.startswith('- Location:'):
                    chk['location'] = s.split(':', 1)[1].strip()
                j += 1
            cur.checks.append(chk)
            i = j
            continue
        m = re.match(r'^VERIFICATION:- (\w+)', ln)
        if m:
            cur.verification = m.group(1)
        m = re.match(r'^Verification Time: ([\d.]+)s', ln)
        if m:
            cur.time_s = float(m.group(1))
        m = re.match(r'^Runtime (?:Solver|decision procedure): ([\d.e+-]+)s', ln)
        if m:
            cur.solver_s += float(m.group(1))
        m = re.match(r'^Generated (\d+) VCC\(s\), (\d+) remaining after simplification', ln)
        if m:
            cur.vccs += int(m.group(1)); cur.vccs_remaining += int(m.group(2))
        m = re.match(r'^Runtime Symex: ', ln)
        m = re.match(r'^size of program expression: (\d+) steps', ln)
        if m:
            cur.steps = int(m.group(1))
        m = re.match(r'^\s*- Stub: (.*)$', ln)
        if m:
            cur.stubs.append(m.group(1).strip())
        if 'timed out' in ln.lower() or 'timeout' in ln.lower() and 'harness' in ln.lower():
            cur.timed_out = True
        if ln.startswith('CBMC failed') or 'out of memory' in ln.lower() or 'std::bad_alloc' in ln or ln.startswith('CBMC timed out'):
            cur.errors.append(ln.strip())
        if ln.startswith('Concrete playback unit test for'):
            j = i + 1
            buf = []
            fence = 0
            while j < len(lines):
                if lines[j].strip() == '```':
                    fence += 1
                    if fence == 2:
                        break
                elif fence == 1:
                    buf.append(lines[j])
                j += 1
            cur.playback = '\n'.join(buf)
            i = j
        i += 1
    return res, compile_errors

PROPERTY_CLASSES = ('assertion', 'arithmetic_overflow', 'array_bounds', 'division-by-zero', 'division_by_zero',
                    'pointer_dereference', 'pointer_arithmetic', 'bounds', 'overflow', 'NaN', 'safety_check',
                    'precondition_instance', 'enum-range-check', 'undefined-shift', 'pointer', 'memory-leak')

def check_class(cid):
    # e.g. "foo::bar.assertion.3", "std::ptr::read.pointer_dereference.2", "x.unwind.0", "x.cover.1"
    parts = cid.rsplit('.', 2)
    return parts[-2] if len(parts) >= 3 else cid

def classify(h, r, hdir_marker='/harness/'):
    """-> (verdict, details).  verdict in pass | violation | inconclusive."""
    d = {'failed': [], 'inconclusive': [], 'covers_sat': 0, 'covers_unsat': 0, 'n_checks': len(r.checks),
         'n_success': 0, 'n_unreachable': 0}
    if r.verification is None:
        d['inconclusive'].append('no verdict (timeout / crash / out of memory)')
        return 'inconclusive', d
    viol = []
    for c in r.checks:
        cls = check_class(c['id'])
        st = c['status']
        if cls == 'cover':
            if st == 'SATISFIED':
                d['covers_sat'] += 1
            else:
                d['covers_unsat'] += 1
                d['inconclusive'].append('cover not satisfied: %s [%s]' % (c['description'], st))
            continue
        if st == 'SUCCESS':
            d['n_success'] += 1
        elif st == 'UNREACHABLE':
            d['n_unreachable'] += 1
        elif st == 'FAILURE':
            if cls == 'unwind':
                d['inconclusive'].append('unwinding assertion failed: %s %s' % (c['description'], c['location']))
            elif cls in ('unsupported_construct', 'unsupported'):
                d['inconclusive'].append('unsupported construct reachable: %s %s' % (c['description'], c['location']))
            elif 'is not currently supported by Kani' in c['description'] or 'unsupported' in c['description'].lower():
                d['inconclusive'].append('unsupported: %s %s' % (c['description'], c['location']))
            else:
                in_harness = '.verif' in c['location'] or hdir_marker in c['location'] or 'verif_kani_' in c['location']
                rec = dict(c)
                rec['in_harness'] = in_harness
                viol.append(rec)
        elif st == 'UNDETERMINED':
            pass  # explained by an unwind/unsupported failure, reported above
        else:
            d['inconclusive'].append('unexpected status %s for %s' % (st, c['id']))
    d['failed'] = viol
    undet = [c for c in r.checks if c['status'] == 'UNDETERMINED']
    if undet and not d['inconclusive']:
        d['inconclusive'].append('%d checks UNDETERMINED' % len(undet))
    if h.expect == 'fail':
        # vacuity twin: the final assert(false) must be reported as FAILURE
        twin = [v for v in viol if v['in_harness']]
        if twin and not d['inconclusive']:
            return 'pass', d
        d['inconclusive'].append('vacuity twin did not fail: the harness end is unreachable')
        return 'inconclusive', d
    if viol:
        return 'violation', d
    if d['inconclusive']:
        return 'inconclusive', d
    if r.verification != 'SUCCESSFUL':
        d['inconclusive'].append('VERIFICATION:- %s without a failed check' % r.verification)
        return 'inconclusive', d
    return 'pass', d
