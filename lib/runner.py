"""Property-level driver: plan -> Kani runs -> classification -> playback -> evidence."""
import json, os, re, shutil, subprocess, sys, time, threading
from concurrent.futures import ThreadPoolExecutor
import vk

EVID = os.path.join(vk.VERIF, 'evidence')
KNOWN = os.path.join(vk.VERIF, 'known_findings.json')
LOGS = os.path.join(vk.CACHE, 'logs')

def say(*a):
    print(*a, flush=True)

def load_known():
    try:
        return json.load(open(KNOWN)).get('findings', [])
    except FileNotFoundError:
        return []

# ----------------------------------------------------------------------------

def attributed(desc, prop, harness):
    # A failed check of a harness counts for every property the harness serves: the `Cxx:` prefix of a message
    # names the sentence it was written for, but a kernel that misbehaves breaks all the properties that rest
    # on it (an earlier, prefix-based attribution turned a seeded C09 break into "inconclusive").
    return True

def classify_json(h, res, cbmc_stats, prop):
    """res: entry of verification_results.results -> (verdict, details)"""
    d = {'harness': h.name, 'module': h.mod.module, 'failed': [], 'other_property_failed': [], 'inconclusive': [],
         'covers_sat': 0, 'covers_total': 0, 'n_checks': 0, 'n_success': 0, 'n_unreachable': 0,
         'status': res.get('status'), 'duration_s': res.get('duration_ms', 0) / 1000.0, 'stats': cbmc_stats or {}}
    checks = res.get('checks') or []
    d['n_checks'] = len(checks)
    if res.get('status') not in ('Success', 'Failure'):
        d['inconclusive'].append('harness status %r (timeout / crash / out of memory)' % res.get('status'))
    if not checks:
        d['inconclusive'].append('no checks reported')
    undet = 0
    for c in checks:
        cat, st = c.get('category'), c.get('status')
        loc = c.get('location') or {}
        where = '%s:%s in %s' % (loc.get('file', '?'), loc.get('line', '?'), c.get('function', '?'))
        if cat == 'cover':
            d['covers_total'] += 1
            if st == 'Satisfied':
                d['covers_sat'] += 1
            else:
                d['inconclusive'].append('cover not satisfied (%s): %s' % (st, c.get('description')))
            continue
        if st == 'Success':
            d['n_success'] += 1
        elif st == 'Unreachable':
            d['n_unreachable'] += 1
        elif st == 'Undetermined':
            undet += 1
        elif st == 'Failure':
            desc = c.get('description', '')
            if cat == 'unwind' or 'unwinding assertion' in desc:
                d['inconclusive'].append('unwinding assertion failed: %s' % where)
            elif cat in ('unsupported_construct', 'unsupported') or 'not currently supported by Kani' in desc or 'unsupported' in desc.lower():
                d['inconclusive'].append('unsupported construct reachable: %s @ %s' % (desc, where))
            else:
                rec = {'description': desc, 'function': c.get('function'), 'file': loc.get('file'), 'line': loc.get('line'),
                       'category': cat, 'in_harness': str(loc.get('file', '')).startswith(vk.SCRATCH)}
                (d['failed'] if attributed(desc, prop, h) else d['other_property_failed']).append(rec)
        else:
            d['inconclusive'].append('status %s for check %s' % (st, c.get('description')))
    if undet and not d['inconclusive']:
        d['inconclusive'].append('%d checks undetermined' % undet)
    if h.expect == 'fail':
        twin = [f for f in d['failed'] if f['in_harness']]
        d['twin_failed'] = bool(twin)
        d['failed'] = [f for f in d['failed'] if not f['in_harness']]
        if not twin:
            d['inconclusive'].append('vacuity twin did not fail: the end of the harness is unreachable')
        if d['failed']:
            return 'violation', d
        return ('inconclusive' if d['inconclusive'] else 'pass'), d
    if d['failed']:
        return 'violation', d
    if d['inconclusive']:
        return 'inconclusive', d
    if res.get('status') != 'Success':
        # only failures attributed to another property
        if d['other_property_failed']:
            return 'pass', d
        d['inconclusive'].append('harness failed without a failed check')
        return 'inconclusive', d
    return 'pass', d

# ----------------------------------------------------------------------------

def run_batch(shard, crate, hs, mods, logdir, jobs, memkb=None, tag=''):
    """one `cargo kani -j` invocation; returns {harness name: (res, stats)} , errors"""
    vk.sync_overlay(shard, mods)
    out_json = os.path.join(logdir, 'kani-%s-s%d%s.json' % (crate, shard.k, ('-ext' if memkb else '') + tag))
    if os.path.exists(out_json):
        os.remove(out_json)
    log = vk.run_kani(shard, crate, hs, logdir, jobs=max(2, jobs), playback=False,
                      extra_args=['--output-format=terse', '--export-json', out_json], memkb=memkb)
    text = open(log, errors='replace').read()
    results, errors = {}, []
    if os.path.exists(out_json):
        try:
            j = json.load(open(out_json))
            stats = {c['harness_id']: c.get('cbmc_stats') for c in j.get('cbmc', [])}
            for r in j['verification_results']['results']:
                results[r['harness_id']] = (r, stats.get(r['harness_id']))
        except Exception as e:
            errors.append('cannot read %s: %s' % (out_json, e))
    if not results:
        results = parse_terse(text)
        if results:
            errors.append('kani-driver wrote no JSON (it crashed on the output of a failing CBMC run); results recovered from the terse log of %s' % log)
    if not results:
        errs = [l for l in text.splitlines() if re.match(r'^error(\[E\d+\])?:', l) or 'internal compiler error' in l
                or 'unexpectedly panicked' in l]
        errors.append('no results from cargo kani for crate %s (see %s): %s' % (crate, log, ' | '.join(errs[:6]) or 'no error line'))
    return results, errors, log, text

def parse_terse(text):
    """Fallback when kani-driver dies before writing --export-json: recover per-harness verdicts from the
    terse log.  Only SUCCESSFUL harnesses with all covers satisfied are recovered as such; everything
    else is reported with status 'Unknown' (inconclusive)."""
    cur, out = {}, {}
    lines = text.splitlines()
    i = 0
    while i < len(lines):
        m = re.match(r'^Thread (\d+): Checking harness (\S+?)\.\.\.', lines[i])
        if m:
            cur[m.group(1)] = m.group(2)
        m = re.match(r'^Thread (\d+):\s*$', lines[i])
        if m and m.group(1) in cur:
            name = cur[m.group(1)]
            block = []
            j = i + 1
            while j < len(lines) and not lines[j].startswith('Thread '):
                block.append(lines[j]); j += 1
            b = '\n'.join(block)
            ok = 'VERIFICATION:- SUCCESSFUL' in b
            mf = re.search(r'\*\* (\d+) of (\d+) failed', b)
            mc = re.search(r'\*\* (\d+) of (\d+) cover properties satisfied', b)
            checks = []
            if mf:
                checks += [{'category': 'assertion', 'status': 'Success', 'description': 'recovered', 'location': {}}] * (int(mf.group(2)) - int(mf.group(1)))
            if mc:
                checks += [{'category': 'cover', 'status': 'Satisfied', 'description': 'recovered', 'location': {}}] * int(mc.group(1))
                checks += [{'category': 'cover', 'status': 'Unsatisfiable', 'description': 'recovered', 'location': {}}] * (int(mc.group(2)) - int(mc.group(1)))
            mt = re.search(r'Verification Time: ([\d.]+)s', b)
            status = 'Success' if ok and mf and int(mf.group(1)) == 0 else 'Unknown'
            out[name] = ({'harness_id': name, 'status': status, 'duration_ms': int(float(mt.group(1)) * 1000) if mt else 0,
                          'checks': checks if status == 'Success' else []}, None)
            i = j
            continue
        i += 1
    return out

def find_result(results, h):
    suffix = '::verif_kani_%s::%s' % (h.mod.module, h.name)
    for k, v in results.items():
        if k.endswith(suffix):
            return k, v
    return None, None

MEM_BUDGET_GB = 44.0

def cpu_jobs(n_batches):
    c = os.cpu_count() or 4
    # measured: more than ~6 concurrent CBMC processes slow each other down 5-8x on this machine (memory bound)
    # ... and the memory-heavy harnesses of two crates running side by side have been seen to lose a CBMC
    # process to the out-of-memory killer; at most ~8 CBMC processes in total
    return max(2, min(6, c // 2 // max(1, n_batches)))

def match_known(known, prop, h, f):
    for k in known:
        if k.get('property') != prop or k.get('harness') != h.name:
            continue
        m = k.get('match', {})
        if m.get('description') and m['description'] != f['description']:
            continue
        if m.get('function') and m['function'] != f['function']:
            continue
        return k
    return None

def check(prop, tier, seed, only=None, jobs=0, write_evidence=True):
    t0 = time.time()
    mods = vk.load_modules()
    hs = vk.select(mods, prop, tier)
    if only:
        hs = [h for h in hs if any(o in h.name for o in only)]
    if not hs:
        say('check: no harness registered for %s at tier %s' % (prop, tier))
        return 2
    logdir = os.path.join(LOGS, '%s-%s' % (prop, tier))
    shutil.rmtree(logdir, ignore_errors=True)
    os.makedirs(logdir, exist_ok=True)
    by_crate = {}
    for h in hs:
        by_crate.setdefault(h.mod.crate, []).append(h)
    # phase 1: core harnesses (normal address-space cap); phase 2: non-core extensions, which may
    # legitimately run out of memory -- their cap is divided among the parallel jobs so that they
    # cannot take the machine (62 GB, no swap) or a core harness down with them
    batches, ext_batches = [], []
    for crate, lst in sorted(by_crate.items()):
        lst.sort(key=lambda h: -h.cost)
        core, ext = [h for h in lst if h.core], [h for h in lst if not h.core]
        if core:
            batches.append((crate, core, None))
        if ext:
            ext_batches.append((crate, ext, 'ext'))
    shards = vk.acquire_shards(max(len(batches), len(ext_batches), 1))
    per = jobs or cpu_jobs(min(max(len(batches), len(ext_batches), 1), len(shards)))
    ext_memkb = min(24 * 1024 * 1024, (52 * 1024 * 1024) // max(1, per * max(1, min(len(ext_batches), len(shards)))))
    say('check %s tier=%s: %d harnesses in %d crate batch(es)%s, %d shard(s), -j %d' % (prop, tier, len(hs), len(batches), (' + %d extension batch(es)' % len(ext_batches)) if ext_batches else '', len(shards), per))
    results, errors, logs = {}, [], []
    lock = threading.Lock()
    queue = []

    def worker(shard):
        while True:
            with lock:
                if not queue:
                    return
                crate, lst, kind = queue.pop(0)
            ms = {h.mod.module: h.mod for h in lst}
            byname = {m.module: m for m in mods}
            for m in list(ms.values()):
                for r in m.requires:
                    ms[r] = byname[r]
            ms = sorted(ms.values(), key=lambda m: m.module)
            try:
                # memory-aware parallelism: the harnesses of one batch run side by side, so their
                # measured peaks (`mem=` in the harness header, GB) must fit the machine together
                nj = per if kind else max(1, min(per, int(MEM_BUDGET_GB // max(1, len(batches)) // max(h.mem for h in lst))))
                r, e, log, _ = run_batch(shard, crate, lst, ms, logdir, nj, memkb=ext_memkb if kind else None)
            except vk.HarnessMismatch as ex:
                r, e, log = {}, [str(ex)], None
            with lock:
                results.update(r)
                errors.extend(e)
                logs.append(log)
    try:
        for phase in (batches, ext_batches):
            if not phase:
                continue
            queue.extend(phase)
            with ThreadPoolExecutor(len(shards)) as ex:
                list(ex.map(worker, shards))
        known = load_known()

        def verdict_of(h):
            key, rv = find_result(results, h)
            if rv is None:
                return (h, 'inconclusive', {'harness': h.name, 'module': h.mod.module, 'failed': [], 'inconclusive': ['no result (build failed or harness missing)'],
                                            'covers_sat': 0, 'covers_total': 0, 'n_checks': 0, 'n_success': 0, 'n_unreachable': 0, 'stats': {}, 'duration_s': 0})
            v, d = classify_json(h, rv[0], rv[1], prop)
            d['full_name'] = key
            return (h, v, d)
        drop = os.environ.get('VERIF_TEST_DROP')     # self-test of the retry path: forget the first verdict of matching harnesses
        if drop:
            for k in [k for k in results if drop in k]:
                del results[k]
        verdicts = [verdict_of(h) for h in hs]
        # A core harness that produced no verdict at all (its CBMC process was killed: memory pressure
        # from the harnesses running beside it, or the wall cap under contention) is decided again,
        # alone.  Only the absence of a verdict is retried; a failed check, an unsatisfied cover or an
        # unwinding failure is a verdict and stands.
        lost = [h for h, v, d in verdicts if v == 'inconclusive' and h.core and not d['failed'] and d['n_checks'] == 0]
        if lost and len(lost) <= 6:
            byname = {m.module: m for m in mods}
            for h in lost:
                say('  no verdict for %s in the parallel run; deciding it again alone' % h.name)
                ms = {h.mod.module: h.mod}
                for r in h.mod.requires:
                    ms[r] = byname[r]
                for k in [k for k in results if k == h.name or k.endswith('::' + h.name)]:
                    del results[k]
                try:
                    r, e, log, _ = run_batch(shards[0], h.mod.crate, [h], sorted(ms.values(), key=lambda m: m.module), logdir, 1, tag='-retry')
                    results.update(r)
                    errors.extend('retry of %s: %s' % (h.name, x) for x in e)
                    logs.append(log)
                except vk.HarnessMismatch as ex:
                    errors.append(str(ex))
            retried = set(h.name for h in lost)
            verdicts = [verdict_of(h) if h.name in retried else (h, v, d) for h, v, d in verdicts]
            for h, v, d in verdicts:
                if h.name in retried:
                    d['retried_alone'] = True
        # known findings / new violations
        known_lines, new_viol = [], []
        for h, v, d in verdicts:
            if v != 'violation':
                continue
            rest = []
            for f in d['failed']:
                k = match_known(known, prop, h, f)
                if k and k.get('status') == 'known':
                    line = 'KNOWN-FINDING: property=%s %s' % (prop, k.get('what', f['description']))
                    if line not in known_lines:
                        known_lines.append(line)
                    f['known_finding'] = k.get('id')
                else:
                    rest.append(f)
            if rest:
                new_viol.append((h, d, rest))
        replay_paths = []
        nonrepro = []
        for h, d, rest in new_viol:
            # second pass: the solver's assignment is replayed natively (concrete playback) before it is reported
            rp = confirm_by_playback(shards[0], prop, h, d, rest, logdir, keep=write_evidence)
            d['playback'] = rp
            if rp.get('reproduced'):
                replay_paths.append(rp['path'])
            else:
                nonrepro.append((h, rp))
        incon = [(h, d) for h, v, d in verdicts if v == 'inconclusive']
        core_incon = [(h, d) for h, d in incon if h.core]
        wall = time.time() - t0
        if write_evidence:
            write_evidence_file(prop, tier, seed, hs, verdicts, known_lines, replay_paths, errors, wall)
        for l in known_lines:
            say(l)
        for h, v, d in verdicts:
            st = d.get('stats') or {}
            say('  %-12s %-48s %6.1fs checks=%d covers=%d/%d %s' % (v.upper(), h.name, d.get('duration_s', 0), d['n_checks'], d['covers_sat'], d['covers_total'],
                                                                   ('; '.join(d['inconclusive'])[:200] if v == 'inconclusive' else '')))
            if v == 'violation':
                for f in d['failed'][:6]:
                    say('      failed: %s @ %s:%s in %s%s' % (f['description'], os.path.basename(str(f['file'])), f['line'], f['function'],
                                                             ' [known]' if f.get('known_finding') else ''))
        for e in errors:
            say('  error: ' + e[:600])
        if replay_paths:
            for p in replay_paths:
                say('VIOLATION property=%s replay=%s' % (prop, p))
            return 1
        if nonrepro:
            for h, rp in nonrepro:
                say('  inconclusive: counterexample of %s did not reproduce in concrete playback (%s)' % (h.name, rp.get('why', '')))
            return 2
        if core_incon:
            say('INCONCLUSIVE property=%s (%d core harness(es) undecided)' % (prop, len(core_incon)))
            return 2
        say('PASS property=%s tier=%s harnesses=%d wall=%.0fs' % (prop, tier, len(hs), wall))
        return 0
    finally:
        for s in shards:
            s.release()

# ----------------------------------------------------------------------------
# concrete playback
# ----------------------------------------------------------------------------

def confirm_by_playback(shard, prop, h, d, rest, logdir, keep=True):
    """Re-run one failing harness with --concrete-playback=print, then execute the printed unit test
    natively (`cargo kani playback`).  The violation is reported only if the native run fails."""
    rp = {'harness': h.name, 'module': h.mod.module, 'crate': h.mod.crate, 'property': prop, 'failed_checks': rest,
          'reproduced': False}
    # runs that do not write evidence (trial runs against seeded changes) keep their replay files out of evidence/
    rdir = os.path.join(EVID, 'replay') if keep else os.path.join(vk.CACHE, 'replay')
    os.makedirs(rdir, exist_ok=True)
    path = os.path.join(rdir, '%s-%s.json' % (prop, h.name))
    rp['path'] = path
    if not h.playback:
        return confirm_by_second_solver(shard, prop, h, d, rest, logdir, rp, path)
    try:
        vk.sync_overlay(shard, with_requires(h.mod))
        log = vk.run_kani(shard, h.mod.crate, [h], os.path.join(logdir, 'playback'), jobs=1, playback=True)
        res, errs = vk.parse_log(open(log, errors='replace').read())
        tests = [r.playback for r in res.values() if r.playback and 'fn kani_concrete_playback' in r.playback]
        # keep only tests generated for failed checks (Kani also prints tests for satisfied covers)
        tests = [t for t in tests]
        text = open(log, errors='replace').read()
        blocks = re.findall(r'Concrete playback unit test for `[^`]*`:\n```\n(.*?)\n```', text, re.S)
        blocks = [b for b in blocks if 'Check for `cover`' not in b] or blocks
        if not blocks:
            # counterexample generation is heavier than deciding; when it does not get through, fall back to
            # the second-solver confirmation
            rp['playback_note'] = 'Kani printed no concrete playback test (see %s); confirmed with a second solver instead' % log
            return confirm_by_second_solver(shard, prop, h, d, rest, logdir, rp, path)
        test_src = blocks[0]
        rp['test'] = test_src
        ok, out = run_playback(shard, h, test_src)
        rp['reproduced'] = ok
        rp['playback_output_tail'] = out[-1500:]
        if not ok:
            rp['why'] = 'native playback did not fail'
    except Exception as e:
        rp['why'] = 'playback machinery error: %r' % (e,)
    json.dump(rp, open(path, 'w'), indent=1)
    return rp

def with_requires(mod):
    byname = {m.module: m for m in vk.load_modules()}
    return [mod] + [byname[r] for r in mod.requires]

def confirm_by_second_solver(shard, prop, h, d, rest, logdir, rp, path):
    """Harnesses that stub repository code or use a partially initialised context cannot be replayed natively
    (Kani does not apply stubs to playback tests).  Their counterexamples are confirmed by deciding the same
    harness again, alone, with a different SAT solver (Kissat instead of CaDiCaL): the violation is reported
    only if the same check fails again."""
    rp['confirmation'] = 'second solver (kissat)'
    try:
        vk.sync_overlay(shard, with_requires(h.mod))
        out_json = os.path.join(logdir, 'confirm-%s.json' % h.name)
        if os.path.exists(out_json):
            os.remove(out_json)
        vk.run_kani(shard, h.mod.crate, [h], os.path.join(logdir, 'confirm'), jobs=2, playback=False,
                    extra_args=['--output-format=terse', '--export-json', out_json, '--solver', 'kissat'])
        j = json.load(open(out_json))
        again = []
        for r in j['verification_results']['results']:
            for c in r.get('checks') or []:
                if c.get('status') == 'Failure':
                    again.append(c.get('description'))
        want = {f['description'] for f in rest}
        rp['second_solver_failed_checks'] = sorted(set(again))
        rp['reproduced'] = bool(want & set(again))
        if not rp['reproduced']:
            rp['why'] = 'the second solver did not fail the same check'
    except Exception as e:
        rp['why'] = 'confirmation run failed: %r' % (e,)
    json.dump(rp, open(path, 'w'), indent=1)
    return rp

def rerun_under_kani(prop, rp):
    mods = {m.module: m for m in vk.load_modules()}
    h = [x for x in mods[rp['module']].harnesses if x.name == rp['harness']][0]
    shard = vk.acquire_shards(1)[0]
    try:
        vk.sync_overlay(shard, with_requires(h.mod))
        out_json = os.path.join(LOGS, 'replay-%s.json' % h.name)
        os.makedirs(LOGS, exist_ok=True)
        if os.path.exists(out_json):
            os.remove(out_json)
        vk.run_kani(shard, h.mod.crate, [h], os.path.join(LOGS, 'replay'), jobs=2, playback=False,
                    extra_args=['--output-format=terse', '--export-json', out_json], memkb=memkb)
        j = json.load(open(out_json))
        failed = [c.get('description') for r in j['verification_results']['results'] for c in (r.get('checks') or []) if c.get('status') == 'Failure']
    finally:
        shard.release()
    want = {f['description'] for f in rp.get('failed_checks', [])}
    return bool(want & set(failed)), failed

def run_playback(shard, h, test_src):
    name = re.search(r'fn (kani_concrete_playback_\w+)', test_src).group(1)
    vk.sync_overlay(shard, with_requires(h.mod), extra_tests={h.mod.module: test_src})
    env = vk.kani_env()
    env['CARGO_TARGET_DIR'] = os.path.join(shard.dir, 'target-playback')
    cmd = ['cargo', 'kani', 'playback', '-Z', 'concrete-playback', '-p', h.mod.crate, '--', name]
    p = subprocess.run(['timeout', '1800'] + cmd, cwd=shard.overlay, env=env, stdout=subprocess.PIPE, stderr=subprocess.STDOUT, text=True, errors='replace')
    out = p.stdout
    ran = re.search(r'test result: FAILED\. 0 passed; 1 failed', out) is not None
    return ran, out

def replay(prop, path):
    rp = json.load(open(path))
    if 'test' not in rp:
        ok, failed = rerun_under_kani(prop, rp)
        say('replay (solver re-run of %s): failed checks now: %s' % (rp['harness'], failed[:5]))
        if ok:
            say('VIOLATION property=%s replay=%s' % (prop, path))
            return 1
        say('replay: the recorded violation does not occur on the current tree')
        return 0
    mods = {m.module: m for m in vk.load_modules()}
    m = mods[rp['module']]
    h = [x for x in m.harnesses if x.name == rp['harness']][0]
    shard = vk.acquire_shards(1)[0]
    try:
        ok, out = run_playback(shard, h, rp['test'])
    finally:
        shard.release()
    say(out[-3000:])
    if ok:
        say('VIOLATION property=%s replay=%s' % (prop, path))
        return 1
    say('replay: the recorded counterexample does not fail on the current tree')
    return 0

# ----------------------------------------------------------------------------
# evidence
# ----------------------------------------------------------------------------

def write_evidence_file(prop, tier, seed, hs, verdicts, known_lines, replay_paths, errors, wall):
    os.makedirs(EVID, exist_ok=True)
    mods = sorted({h.mod.module: h.mod for h in hs}.values(), key=lambda m: m.module)
    checks_decided = sum(d['n_success'] + d['n_unreachable'] + len(d['failed']) + d['covers_sat'] for _, _, d in verdicts)
    nontrivial = [h for h, v, d in verdicts if v in ('pass', 'violation') and h.sym and not h.trivial and h.expect != 'fail' and d['covers_total'] > 0 and d['covers_sat'] == d['covers_total']]
    samples = []
    for h, v, d in verdicts:
        st = d.get('stats') or {}
        samples.append({'harness': h.name, 'module': h.mod.module, 'crate': h.mod.crate, 'verdict': v, 'core': h.core, 'symbolic_inputs': h.sym, 'bound': h.bound,
                        'vacuity_twin': h.expect == 'fail', 'checks': d['n_checks'], 'covers_satisfied': '%d/%d' % (d['covers_sat'], d['covers_total']),
                        'vccs': st.get('vccs_generated'), 'program_steps': st.get('size_program_expression'),
                        'solver_s': st.get('runtime_decision_procedure_s'), 'wall_s': d.get('duration_s'),
                        'failed_checks': d['failed'][:5], 'inconclusive': d['inconclusive'][:5]})
    ev = {
        'property_id': prop, 'tier': tier, 'seed': seed, 'level': 'model_checking', 'wall_s': round(wall, 1),
        'violations': len(replay_paths),
        'coverage': {
            'evaluations': checks_decided,
            'distinct_nontrivial': len(nontrivial),
            'rule': 'evaluations = property checks (assertions, overflow/bounds/unwrap panics, pointer checks, covers) decided by CBMC/CaDiCaL '
                    'over all values of the symbolic inputs, summed over harnesses; distinct_nontrivial = distinct harnesses that have symbolic inputs, '
                    'were decided (pass or reproduced violation) and whose reachability covers were all satisfied (vacuity twins not counted). '
                    'VERIF_SEED does not influence a solver verdict; it is recorded only.',
            'samples': samples,
            'exhaustive': False,
            'engine': 'Kani 0.68.0 / CBMC 6.11.0 / CaDiCaL; encoding regenerated from /repo working tree on this run',
            'harnesses_run': len(hs),
            'harnesses_passed': sum(1 for _, v, _ in verdicts if v == 'pass'),
            'harnesses_inconclusive': [h.name for h, v, _ in verdicts if v == 'inconclusive'],
            'functions_encoded': sorted({f for m in mods for f in m.functions}),
            'bounds': {h.name: h.bound for h in hs},
            'stubs': sorted({s for m in mods for s in m.stubs}),
            'queries_discharged': checks_decided,
            'vccs': sum((d.get('stats') or {}).get('vccs_generated') or 0 for _, _, d in verdicts),
            'program_steps': sum((d.get('stats') or {}).get('size_program_expression') or 0 for _, _, d in verdicts),
            'solver_time_s': round(sum((d.get('stats') or {}).get('runtime_decision_procedure_s') or 0 for _, _, d in verdicts), 3),
            'symex_time_s': round(sum((d.get('stats') or {}).get('runtime_symex_s') or 0 for _, _, d in verdicts), 3),
            'known_findings': known_lines,
            'replay_files': replay_paths,
            'errors': errors,
            'decides': [x for m in mods for x in m.decides],
            'outside_claim': [x for m in mods for x in m.outside],
        },
        'assumptions': sorted({a for m in mods for a in m.assumes} | {
            'Kani memory model: allocation never fails; integer semantics of the dev profile (overflow checks on; the release profile of /repo also sets overflow-checks = true)',
            'std::hash::RandomState::new is stubbed to fixed keys wherever a HashMap is reachable',
            'every claim is bounded as listed under coverage.bounds; nothing is claimed outside those bounds',
        }),
    }
    with open(os.path.join(EVID, prop + '.json'), 'w') as f:
        json.dump(ev, f, indent=1)

# ----------------------------------------------------------------------------

def selftest():
    mods = vk.load_modules()
    names = set()
    for m in mods:
        for h in m.harnesses:
            key = (m.module, h.name)
            assert key not in names, 'duplicate harness %s' % (key,)
            names.add(key)
            src = open(m.path).read()
            assert re.search(r'(fn %s\s*\(|\b%s =>|!\(%s,)' % (re.escape(h.name), re.escape(h.name), re.escape(h.name)), src), 'harness fn %s missing in %s' % (h.name, m.path)
        assert os.path.isfile(os.path.join(vk.REPO, m.attach)), 'attach point missing: %s' % m.attach
    say('selftest: %d modules, %d harnesses ok' % (len(mods), len(names)))
    return 0

def warm():
    """build the dependency graph once per shard so that the first check does not pay the cold build"""
    mods = vk.load_modules()
    crates = sorted({m.crate for m in mods})
    shards = vk.acquire_shards(1)
    try:
        for s in shards:
            for crate in crates:
                ms = [m for m in mods if m.crate == crate][:1]
                vk.sync_overlay(s, ms)
                cmd = ['cargo', 'kani', '-p', crate, '--target-dir', s.target, '-Z', 'stubbing', '--only-codegen',
                       '--harness', 'verif_kani_%s::%s' % (ms[0].module, ms[0].harnesses[0].name)]
                p = subprocess.run(cmd, cwd=s.overlay, env=vk.kani_env(), stdout=subprocess.PIPE, stderr=subprocess.STDOUT, text=True)
                say('warm: shard %d crate %s -> exit %d' % (s.k, crate, p.returncode))
    finally:
        for s in shards:
            s.release()
    return 0
