//! API-level replay of solver counterexamples against the real interpreter.
//!
//! usage: verif-replay <scenario>      (one scenario per process: an abort must not hide others)
//! prints `OUTCOME ret_code=<n> ...` when execute_air returned, exits 101 on panic.
use air_interpreter_data::*;
use air_interpreter_interface::*;
use air_interpreter_sede::ToSerialized;
use std::rc::Rc;

mod scenarios;

pub const PEER: &str = "12D3KooWEXNUbCXooUwHrHBbrmjsrpHXoEphPwbjQXEGyzbqKnE9";

pub fn params(current_peer_id: &str) -> RunParameters {
    // fixed ed25519 secret key; the peer id need not match for unsigned runs
    let kp = fluence_keypair::KeyPair::from_secret_key([7u8; 32].to_vec(), fluence_keypair::KeyFormat::Ed25519).unwrap();
    RunParameters {
        init_peer_id: "init_peer".to_string(),
        current_peer_id: current_peer_id.to_string(),
        timestamp: 0,
        ttl: 0,
        key_format: kp.key_format().into(),
        secret_key_bytes: kp.secret().unwrap(),
        particle_id: "particle".to_string(),
        air_size_limit: u64::MAX,
        particle_size_limit: u64::MAX,
        call_result_size_limit: u64::MAX,
        hard_limit_enabled: false,
    }
}

pub fn data(trace: Vec<ExecutedState>, cid_info: CidInfo, last_call_request_id: u32) -> Vec<u8> {
    InterpreterDataEnvelope::from_execution_result(
        trace.into(),
        cid_info,
        <_>::default(),
        last_call_request_id,
        semver::Version::new(1, 1, 1),
    )
    .serialize()
    .expect("serialize")
}

pub fn no_call_results() -> SerializedCallResults {
    CallResultsRepr.serialize(&CallResults::new()).unwrap()
}

pub fn run(air: &str, prev: Vec<u8>, cur: Vec<u8>, peer: &str, call_results: SerializedCallResults) -> InterpreterOutcome {
    air::execute_air(air.to_string(), prev, cur, params(peer), call_results)
}

pub fn report(o: &InterpreterOutcome) {
    println!(
        "OUTCOME ret_code={} data_len={} next_peers={:?} msg={}",
        o.ret_code,
        o.data.len(),
        o.next_peer_pks,
        o.error_message.chars().take(300).collect::<String>()
    );
}

pub fn rs(s: &str) -> Rc<String> {
    Rc::new(s.to_string())
}

fn main() {
    let name = std::env::args().nth(1).unwrap_or_default();
    for (n, f) in scenarios::all() {
        if n == name {
            f();
            return;
        }
    }
    if name == "--list" {
        for (n, _) in scenarios::all() {
            println!("{n}");
        }
        return;
    }
    eprintln!("unknown scenario {name}");
    std::process::exit(3);
}
