use crate::*;

pub fn all() -> Vec<(&'static str, fn())> {
    vec![
        ("c01_fold_lore_begin_pos_overflow", c01_fold_lore_begin_pos_overflow),
        ("c01_fold_lore_pos_beyond_trace_then_par", c01_fold_lore_pos_beyond_trace_then_par),
    ]
}

fn ap_state(gen: u32) -> ExecutedState {
    ExecutedState::Ap(ApResult::new((gen as usize).into()))
}

fn fold_state(lore: Vec<(u32, (u32, u32), (u32, u32))>) -> ExecutedState {
    ExecutedState::Fold(FoldResult {
        lore: lore
            .into_iter()
            .map(|(value_pos, before, after)| FoldSubTraceLore {
                value_pos: value_pos.into(),
                subtraces_desc: vec![
                    SubTraceDesc::new(before.0.into(), before.1 as usize),
                    SubTraceDesc::new(after.0.into(), after.1 as usize),
                ],
            })
            .collect(),
    })
}

fn sent_by(p: &str) -> ExecutedState {
    ExecutedState::Call(CallResult::sent_peer_id(rs(p)))
}

/// Kani: TraceSlider::set_position_and_len(pos, len) overflows for pos + len > u32::MAX.
/// Reached through the fold lore of *current* data: begin_pos is attacker-chosen.
fn c01_fold_lore_begin_pos_overflow() {
    let air = r#"(seq (ap 1 $s) (fold $s i (seq (call "other" ("s" "f") [i]) (next i))))"#;
    let cur = data(
        vec![
            ap_state(0),
            fold_state(vec![(0, (u32::MAX, 1), (3, 0))]),
            sent_by("other"),
        ],
        <_>::default(),
        0,
    );
    let o = run(air, vec![], cur, PEER, no_call_results());
    report(&o);
}

/// Kani: TraceSlider::set_subtrace_len underflows (trace_len - position) once an empty interval
/// was placed beyond the trace end; a par inside the fold body then calls set_subtrace_len.
fn c01_fold_lore_pos_beyond_trace_then_par() {
    let air = r#"(seq (ap 1 $s) (fold $s i (seq (par (null) (null)) (next i))))"#;
    let cur = data(vec![ap_state(0), fold_state(vec![(0, (1000, 0), (1000, 0))])], <_>::default(), 0);
    let o = run(air, vec![], cur, PEER, no_call_results());
    report(&o);
}
