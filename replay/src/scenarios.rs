use crate::*;

pub fn all() -> Vec<(&'static str, fn())> {
    vec![
        ("c01_fold_lore_begin_pos_overflow", c01_fold_lore_begin_pos_overflow),
        ("c01_fold_lore_pos_beyond_trace_then_par", c01_fold_lore_pos_beyond_trace_then_par),
        ("c04_par_left_not_repositioned_honest", c04_par_left_not_repositioned_honest),
        ("c01_fold_value_pos_to_ap_without_generation", c01_fold_value_pos_to_ap_without_generation),
        ("c01_ap_generation_u32_max", c01_ap_generation_u32_max),
        ("c01_ap_generation_huge_alloc", c01_ap_generation_huge_alloc),
        ("c01_executed_call_with_unresolved_args", c01_executed_call_with_unresolved_args),
        ("c01_trace_cid_missing_from_store_signed", c01_trace_cid_missing_from_store_signed),
        ("c01_raw_value_not_json", c01_raw_value_not_json),
        ("c01_scalar_and_iterator_same_name", c01_scalar_and_iterator_same_name),
        ("c13_recursive_stream_values_from_current_data", c13_recursive_stream_values_from_current_data),
        ("c27_codec_tag_with_dropped_high_bits", c27_codec_tag_with_dropped_high_bits),
        ("c01_lambda_non_ascii_field_name", c01_lambda_non_ascii_field_name),
        ("c01_fail_with_u64_error_code", c01_fail_with_u64_error_code),
        ("c01_nested_fold_next_outer_inside_inner", c01_nested_fold_next_outer_inside_inner),
        ("c01_fold_next_orders", c01_fold_next_orders),
        ("c03_non_json_service_result_is_signed", c03_non_json_service_result_is_signed),
    ]
}

fn ap_state(gen: u32) -> ExecutedState {
    ExecutedState::Ap(ApResult::new((gen as usize).into()))
}

fn fold_state(lore: Vec<(u32, (u32, u32), (u32, u32))>) -> ExecutedState {
    ExecutedState::Fold(FoldResult {
        lore: lore
            .into_iter()
            .map(|(value_pos, before, after)| FoldSubTraceLore {
                value_pos: value_pos.into(),
                subtraces_desc: vec![
                    SubTraceDesc::new(before.0.into(), before.1 as usize),
                    SubTraceDesc::new(after.0.into(), after.1 as usize),
                ],
            })
            .collect(),
    })
}

fn sent_by(p: &str) -> ExecutedState {
    ExecutedState::Call(CallResult::sent_peer_id(rs(p)))
}

/// Kani: TraceSlider::set_position_and_len(pos, len) overflows for pos + len > u32::MAX.
/// Reached through the fold lore of *current* data: begin_pos is attacker-chosen.
fn c01_fold_lore_begin_pos_overflow() {
    let air = r#"(seq (ap 1 $s) (fold $s i (seq (call "other" ("s" "f") [i]) (next i))))"#;
    let cur = data(
        vec![
            ap_state(0),
            fold_state(vec![(0, (u32::MAX, 1), (3, 0))]),
            sent_by("other"),
        ],
        <_>::default(),
        0,
    );
    let o = run(air, vec![], cur, PEER, no_call_results());
    report(&o);
}

/// Kani: TraceSlider::set_subtrace_len underflows (trace_len - position) once an empty interval
/// was placed beyond the trace end; a par inside the fold body then calls set_subtrace_len.
fn c01_fold_lore_pos_beyond_trace_then_par() {
    let air = r#"(seq (ap 1 $s) (fold $s i (seq (par (null) (null)) (next i))))"#;
    let cur = data(vec![ap_state(0), fold_state(vec![(0, (1000, 0), (1000, 0))])], <_>::default(), 0);
    let o = run(air, vec![], cur, PEER, no_call_results());
    report(&o);
}

fn results(pairs: &[(u32, &str)]) -> SerializedCallResults {
    let mut m = CallResults::new();
    for (id, v) in pairs {
        m.insert(id.to_string(), CallServiceResult::ok(&serde_json::json!(*v)));
    }
    CallResultsRepr.serialize(&m).unwrap()
}

pub fn run_ttl(air: &str, prev: Vec<u8>, cur: Vec<u8>, peer: &str, ttl: u32, call_results: SerializedCallResults) -> InterpreterOutcome {
    let mut p = params(peer);
    p.ttl = ttl;
    air::execute_air(air.to_string(), prev, cur, p, call_results)
}

/// Kani (par_fsm_repositions): after the left subgraph of a par the slider is re-positioned with
/// set_position_and_len(pos + left, left), whose error is ignored; it fails whenever
/// pos + 2*left > trace_len, e.g. for the honest trace [par(2,1), x, y, z].  If the left subgraph is
/// left early in a later run (here: a match on %ttl% that no longer holds, caught by xor), the right
/// subgraph reads y's state for z.  All peers honest, one peer, deterministic services.
fn c04_par_left_not_repositioned_honest() {
    let air = r#"
    (par
        (xor
            (seq
                (call "A" ("s" "x") [] r1)
                (match %ttl% 10
                    (call "A" ("s" "y") [] r2)))
            (null))
        (call "A" ("s" "z") [] r3))"#;
    let o1 = run_ttl(air, vec![], vec![], "A", 10, no_call_results());
    report(&o1);
    let o2 = run_ttl(air, o1.data.clone(), vec![], "A", 10, results(&[(1, "rx"), (2, "rz")]));
    report(&o2);
    let o3 = run_ttl(air, o2.data.clone(), vec![], "A", 10, results(&[(3, "ry")]));
    report(&o3);
    let d3 = InterpreterData::try_from_slice(&InterpreterDataEnvelope::try_from_slice(&o3.data).unwrap().inner_data).unwrap();
    println!("TRACE3 {:?}", d3.trace);
    // the same peer runs the particle again later: only %ttl% differs
    let o4 = run_ttl(air, o3.data.clone(), vec![], "A", 5, no_call_results());
    report(&o4);
    assert!(o4.ret_code == 0, "honest re-run failed with code {}: {}", o4.ret_code, o4.error_message);
}

/// MergeCtx::try_get_generation indexes res_generations[0] of whatever Ap state the fold lore points to.
fn c01_fold_value_pos_to_ap_without_generation() {
    let air = r#"(seq (ap 1 $s) (fold $s i (seq (null) (next i))))"#;
    let empty_ap = ExecutedState::Ap(ApResult { res_generations: vec![] });
    let cur = data(vec![ap_state(0), fold_state(vec![(2, (3, 0), (3, 0))]), empty_ap], <_>::default(), 0);
    let o = run(air, vec![], cur, PEER, no_call_results());
    report(&o);
}

/// ValuesMatrix::add_value_to_generation: generation + 1 overflows for u32::MAX.
fn c01_ap_generation_u32_max() {
    let air = r#"(ap 1 $s)"#;
    let cur = data(vec![ap_state(u32::MAX)], <_>::default(), 0);
    let o = run(air, vec![], cur, PEER, no_call_results());
    report(&o);
}

/// ValuesMatrix::add_value_to_generation resizes the matrix to generation + 1 slots (24 bytes each):
/// a 40-byte state asks for ~2.4 GB here (100_000_000 generations).
fn c01_ap_generation_huge_alloc() {
    let air = r#"(ap 1 $s)"#;
    let cur = data(vec![ap_state(100_000_000)], <_>::default(), 0);
    let o = run(air, vec![], cur, PEER, no_call_results());
    report(&o);
    let status = std::fs::read_to_string("/proc/self/status").unwrap_or_default();
    for l in status.lines().filter(|l| l.starts_with("VmHWM") || l.starts_with("VmPeak")) {
        println!("MEM {l}");
    }
}

/// handle_prev_state unwraps the argument hash, which is None while an argument is not yet resolvable.
fn c01_executed_call_with_unresolved_args() {
    let air = r#"
    (seq
        (par (call "other" ("s" "x") [] x) (null))
        (call "other2" ("s" "f") [x]))"#;
    let unused = ExecutedState::Call(CallResult::executed_unused(air_interpreter_cid::CID::new("bagaaihraaaaaaaaaaaaaaaaaaaaaaaaaaaaaaaaaaaaaaaaaaaaaaaaaaaaa")));
    let cur = data(vec![ExecutedState::par(1, 0), sent_by("other"), unused], <_>::default(), 0);
    let o = run(air, vec![], cur, PEER, no_call_results());
    report(&o);
}

/// (build with --features signatures) DataVerifier::new looks up every trace CID in the CID stores with
/// expect(); CidInfo::verify only checks the stores themselves, not that the trace's CIDs are present.
fn c01_trace_cid_missing_from_store_signed() {
    let air = r#"(call "other" ("s" "f") [] r)"#;
    let state = ExecutedState::Call(CallResult::executed_scalar(air_interpreter_cid::CID::new(
        "bagaaihraaaaaaaaaaaaaaaaaaaaaaaaaaaaaaaaaaaaaaaaaaaaaaaaaaaaa",
    )));
    let cur = data(vec![state], <_>::default(), 0);
    let o = run(air, vec![], cur, PEER, no_call_results());
    report(&o);
}

/// RawValue::get_value parses the stored text lazily with expect(); the CID store verification only
/// hashes the text. A correctly hashed non-JSON value in the value store panics on first use.
fn c01_raw_value_not_json() {
    use air_interpreter_cid::CID;
    let air = r#"(call "other" ("s" "f") [] r)"#;
    let raw: RawValue = serde_json::from_str("\"{not json\"").unwrap();
    let mut values = CidTracker::<RawValue>::new();
    let value_cid = values.track_raw_value(raw);
    let mut tetraplets = CidTracker::<polyplets::SecurityTetraplet>::new();
    let tetraplet_cid = tetraplets
        .track_value(polyplets::SecurityTetraplet::new("other", "s", "f", ""))
        .unwrap();
    // argument hash of the empty argument list, as the interpreter computes it
    let args: Vec<air_interpreter_value::JValue> = vec![];
    let argument_hash = air_interpreter_cid::value_to_json_cid(&args).unwrap().get_inner();
    let mut aggs = CidTracker::<ServiceResultCidAggregate>::new();
    let agg_cid: CID<ServiceResultCidAggregate> = aggs
        .track_value(ServiceResultCidAggregate { value_cid, argument_hash, tetraplet_cid })
        .unwrap();
    let cid_info = CidInfo {
        value_store: values.into(),
        tetraplet_store: tetraplets.into(),
        canon_element_store: <_>::default(),
        canon_result_store: <_>::default(),
        service_result_store: aggs.into(),
    };
    let cur = data(vec![ExecutedState::Call(CallResult::executed_scalar(agg_cid))], cid_info, 0);
    let o = run(air, vec![], cur, PEER, no_call_results());
    report(&o);
}

/// Scalars::get_value has unreachable!() for a name that is both a scalar and a fold iterator
/// ("checked on the parsing stage"): try the scripts that could produce such a clash.
fn c01_scalar_and_iterator_same_name() {
    let scripts = [
        r#"(seq (ap 1 x) (seq (ap 1 $s) (fold $s x (seq (call "p" ("s" "f") [x]) (next x)))))"#,
        r#"(seq (ap 1 $s) (fold $s x (seq (ap 1 x) (seq (call "p" ("s" "f") [x]) (next x)))))"#,
        r#"(seq (ap 1 $s) (fold $s x (seq (new x (seq (ap 1 x) (call "p" ("s" "f") [x]))) (next x))))"#,
        r#"(seq (ap 1 $s) (seq (fold $s x (seq (null) (next x))) (seq (ap 1 x) (call "p" ("s" "f") [x]))))"#,
        r#"(seq (ap 1 $s) (fold $s x (seq (fold $s x (seq (call "p" ("s" "f") [x]) (next x))) (next x))))"#,
        r#"(seq (ap 1 $s) (new x (fold $s x (seq (call "p" ("s" "f") [x]) (next x)))))"#,
        r#"(seq (ap 1 $s) (new x (seq (ap 2 x) (fold $s x (seq (call "p" ("s" "f") [x]) (next x))))))"#,
        r#"(seq (ap 1 $s) (fold $s x (seq (call "A" ("s" "f") [] x) (next x))))"#,
        r#"(seq (ap 1 $s) (fold $s x (seq (canon "A" $s #x) (next x))))"#,
        r#"(seq (ap 1 $s) (fold $s x (seq (xor (ap 1 x) (null)) (seq (call "p" ("s" "f") [x]) (next x)))))"#,
        r#"(seq (ap 1 $s) (seq (par (ap 1 x) (null)) (fold $s x (seq (call "p" ("s" "f") [x]) (next x)))))"#,
    ];
    for s in scripts {
        let o1 = run(s, vec![], vec![], "A", no_call_results());
        let mut m = CallResults::new();
        m.insert("1".to_string(), CallServiceResult::ok(&serde_json::json!([1, 2])));
        let o = run(s, o1.data.clone(), vec![], "A", CallResultsRepr.serialize(&m).unwrap());
        print!("{s}\n   ");
        report(&o);
    }
}

fn trace_of(o: &InterpreterOutcome) -> Vec<ExecutedState> {
    let env = InterpreterDataEnvelope::try_from_slice(&o.data).unwrap();
    let d = InterpreterData::try_from_slice(&env.inner_data).unwrap();
    d.trace.iter().cloned().collect()
}

/// runs `peer` until it has no pending call requests, serving every request with `serve(args) -> result`
fn run_to_quiescence(air: &str, peer: &str, mut prev: Vec<u8>, cur: Vec<u8>, serve: &dyn Fn(&serde_json::Value) -> serde_json::Value) -> InterpreterOutcome {
    use air_interpreter_sede::FromSerialized;
    let mut cur = cur;
    let mut results = no_call_results();
    loop {
        let o = run(air, prev.clone(), std::mem::take(&mut cur), peer, results);
        assert!(o.ret_code == 0, "run on {peer} failed: {} {}", o.ret_code, o.error_message);
        let requests: CallRequests = CallRequestsRepr.deserialize(&o.call_requests).unwrap();
        if requests.is_empty() {
            return o;
        }
        let mut m = CallResults::new();
        for (id, req) in requests {
            let args: Vec<air_interpreter_value::JValue> = CallArgumentsRepr.deserialize(&req.arguments).unwrap();
            let args_json: serde_json::Value = serde_json::from_str(&air_interpreter_value::JValue::array(args).to_string()).unwrap();
            m.insert(id.to_string(), CallServiceResult::ok(&serve(&args_json)));
        }
        results = CallResultsRepr.serialize(&m).unwrap();
        prev = o.data;
    }
}

fn executed_stream_results(t: &[ExecutedState]) -> usize {
    t.iter().filter(|s| matches!(s, ExecutedState::Call(CallResult::Executed(ValueRef::Stream { .. })))).count()
}

/// Candidate (from reading ValuesMatrix::slice_iter vs generations_count, prompted by a seeding agent's note):
/// in a recursive stream fold whose values arrive in CURRENT data, the cursor counts empty generations of the
/// sparse current-data matrix while slice_iter skips only non-empty ones -> later values are never iterated.
fn c13_recursive_stream_values_from_current_data() {
    let air = r#"
    (seq
        (ap 1 $s)
        (fold $s i
            (par
                (xor (match i 4 (null)) (call "B" ("s" "inc") [i] $s))
                (next i))))"#;
    let inc = |args: &serde_json::Value| serde_json::json!(args[0].as_i64().unwrap() + 1);
    let a1 = run_to_quiescence(air, "A", vec![], vec![], &inc);
    println!("A next peers {:?}", a1.next_peer_pks);
    let b = run_to_quiescence(air, "B", vec![], a1.data.clone(), &inc);
    let tb = trace_of(&b);
    println!("B trace ({} states, {} executed stream results): {:?}", tb.len(), executed_stream_results(&tb), tb);
    // A merges what B did
    let a2 = run(air, a1.data.clone(), b.data.clone(), "A", no_call_results());
    report(&a2);
    let ta = trace_of(&a2);
    println!("A trace ({} states, {} executed stream results): {:?}", ta.len(), executed_stream_results(&ta), ta);
    assert!(
        executed_stream_results(&ta) == executed_stream_results(&tb),
        "C09/C13: A forgot results present in current data: {} of {}",
        executed_stream_results(&ta),
        executed_stream_results(&tb)
    );
}

/// Kani (c27_multiformat_parse_total): unsigned_varint::decode::u32 drops the bits of a fifth byte that do
/// not fit u32, so the 5-byte tag 81 84 80 80 10 (value 0x1_0000_0201) is read as the msgpack codec 0x0201.
fn c27_codec_tag_with_dropped_high_bits() {
    use air_interpreter_sede::FromSerialized;
    let mut m = CallResults::new();
    m.insert("1".to_string(), CallServiceResult::ok(&serde_json::json!("x")));
    let good = CallResultsRepr.serialize(&m).unwrap();
    let good: Vec<u8> = good.to_vec();
    println!("honest prefix {:02x?}", &good[..2]);
    // replace the 2-byte tag 81 04 by a 5-byte tag of a value that does not fit u32
    let mut forged = vec![0x81u8, 0x84, 0x80, 0x80, 0x10];
    forged.extend_from_slice(&good[2..]);
    let r = CallResultsRepr.deserialize(&forged);
    println!("decoding a payload tagged 0x1_0000_0201: {:?}", r.as_ref().map(|m| m.len()));
    assert!(r.is_err(), "C27: a payload tagged with another codec was decoded as msgpack");
}

/// found by a seeding sub-agent: the lambda lexer slices the field name at end_pos + 1, not a char boundary
fn c01_lambda_non_ascii_field_name() {
    let air = "(seq (call \"A\" (\"s\" \"f\") [] x) (call \"A\" (\"s\" \"g\") [x.$.\u{e9}]))";
    let o = run(air, vec![], vec![], "A", no_call_results());
    report(&o);
}

/// found by a seeding sub-agent: (fail x) with error_code = u64::MAX: as_i64().unwrap() guarded by is_i64() | is_u64()
fn c01_fail_with_u64_error_code() {
    let air = r#"(seq (call "A" ("s" "f") [] x) (fail x))"#;
    let serve = |_: &serde_json::Value| serde_json::json!({"error_code": 18446744073709551615u64, "message": "m"});
    let o1 = run(air, vec![], vec![], "A", no_call_results());
    let mut m = CallResults::new();
    m.insert("1".to_string(), CallServiceResult::ok(&serve(&serde_json::json!([]))));
    let o2 = run(air, o1.data.clone(), vec![], "A", CallResultsRepr.serialize(&m).unwrap());
    report(&o2);
}

/// found by a seeding sub-agent: `next` of the OUTER stream fold inside the inner scalar fold: the lore
/// constructor queue is asked for its current element while empty (subtract overflow)
fn c01_nested_fold_next_outer_inside_inner() {
    let air = r#"
    (seq
        (seq (ap 1 $s) (call "A" ("s" "arr") [] arr))
        (fold $s i (fold arr j (par (next j) (next i)))))"#;
    let o1 = run(air, vec![], vec![], "A", no_call_results());
    let mut m = CallResults::new();
    m.insert("1".to_string(), CallServiceResult::ok(&serde_json::json!([1, 2])));
    let o2 = run(air, o1.data.clone(), vec![], "A", CallResultsRepr.serialize(&m).unwrap());
    report(&o2);
}

/// Kani (c01_fold_fsm_any_order_after_start): [iteration start, next-back, next-forward, generation end]
/// underflows PositionsTracker::len.  Try scripts that could produce such an order.
fn c01_fold_next_orders() {
    let scripts = [
        r#"(seq (seq (seq (ap 1 $s) (ap 2 $s)) (call "A" ("s" "arr") [] arr)) (fold $s i (fold arr j (par (next j) (next i)))))"#,
        r#"(seq (seq (seq (ap 1 $s) (seq (ap 2 $s) (ap 3 $s))) (call "A" ("s" "arr") [] arr)) (fold $s i (fold arr j (par (next j) (next i)))))"#,
        r#"(seq (seq (seq (ap 1 $s) (ap 2 $s)) (call "A" ("s" "arr") [] arr)) (fold $s i (fold arr j (par (next i) (next j)))))"#,
        r#"(seq (seq (seq (ap 1 $s) (ap 2 $s)) (call "A" ("s" "arr") [] arr)) (fold $s i (fold arr j (seq (next j) (next i)))))"#,
        r#"(seq (seq (seq (ap 1 $s) (ap 2 $s)) (call "A" ("s" "arr") [] arr)) (fold $s i (fold arr j (seq (next i) (next j)))))"#,
        r#"(seq (seq (seq (ap 1 $s) (ap 2 $s)) (call "A" ("s" "arr") [] arr)) (fold $s i (fold arr j (xor (seq (next i) (fail 1 "x")) (next j)))))"#,
    ];
    for s in scripts {
        let o1 = run(s, vec![], vec![], "A", no_call_results());
        let mut m = CallResults::new();
        m.insert("1".to_string(), CallServiceResult::ok(&serde_json::json!([1, 2])));
        let o = run(s, o1.data.clone(), vec![], "A", CallResultsRepr.serialize(&m).unwrap());
        print!("{s}\n   ");
        report(&o);
    }
}

fn keyed_params(seed: u8) -> (RunParameters, String) {
    let kp = fluence_keypair::KeyPair::from_secret_key([seed; 32].to_vec(), fluence_keypair::KeyFormat::Ed25519).unwrap();
    let peer_id = kp.get_peer_id().to_string();
    let mut p = params(&peer_id);
    p.key_format = kp.key_format().into();
    p.secret_key_bytes = kp.secret().unwrap();
    (p, peer_id)
}

/// (build with --features signatures) Candidate from reading: try_to_service_result records Failed(cid) for a
/// host result that is not JSON, but (unlike handle_service_error) does not register the CID with the
/// peer's CID tracker, so the peer's signature does not cover a result it recorded.
fn c03_non_json_service_result_is_signed() {
    let (pa, a) = keyed_params(1);
    let (pb, _b) = keyed_params(2);
    let air = format!(r#"(xor (call "{a}" ("s" "f") [] x) (null))"#);
    let o1 = air::execute_air(air.clone(), vec![], vec![], pa.clone(), no_call_results());
    report(&o1);
    let mut m = CallResults::new();
    m.insert("1".to_string(), CallServiceResult { ret_code: 0, result: "{not json".to_string() });
    let o2 = air::execute_air(air.clone(), o1.data.clone(), vec![], pa.clone(), CallResultsRepr.serialize(&m).unwrap());
    report(&o2);
    println!("A trace {:?}", trace_of(&o2));
    // another honest peer receives A's data
    let o3 = air::execute_air(air.clone(), vec![], o2.data.clone(), pb, no_call_results());
    report(&o3);
    assert!(o3.ret_code == 0, "C03: data produced by an honest peer was rejected by another peer: {} {}", o3.ret_code, o3.error_message);
}
